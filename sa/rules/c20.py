"""C20 — compressed estimates: the bond cap reaches sizes only through min()."""

from __future__ import annotations

import ast

from ..engine.program import AnalysisError, dotted, walk_local
from ..engine.report import RuleResult
from . import common as C

PID = "C20"
EXPLANATION = (
    "Taint analysis of the bond-dimension cap `chi` over hypergraph.py, scoring.py, "
    "core.py and the compressed pathfinders: every load of a chi-tainted name "
    "(parameter/local `chi`, attribute `.chi`, one-step aliases) is classified by its "
    "syntactic context. Allowed: argument of min(...) (or the equivalent conditional "
    "expression `a if a < chi else chi`), operand of a comparison, plain aliasing/"
    "attribute store, being passed on as an argument, string formatting, being "
    "returned. Forbidden: arithmetic operand, argument of max/prod/sum/pow, or direct "
    "store into a size table. This is the necessary condition of 'estimates never "
    "exceed their uncapped values' and of 'estimates coincide with the exact ones "
    "when the cap is huge' (a capped size is min(uncapped, chi)). The tracker "
    "arithmetic and the agreement of the hypergraph's survival rule with the tree's "
    "(C18-SURV) are separate."
    "Round 7: (BRACKET) every compress / contract of a tracked hypergraph lies between the tracker's update_pre / update_post calls. "
)
ASSUMPTIONS = ("the default cap `max(size_dict.values()) ** 2` is a definition of chi, not a use",)

SCOPE = [C.HYPERGRAPH, C.SCORING, C.CORE, "cotengra/pathfinders/path_compressed_greedy.py",
         "cotengra/pathfinders/path_compressed.py"]
THOROUGH_SCOPE = ["cotengra/experimental/path_compressed_branchbound.py",
                  "cotengra/experimental/path_compressed_mcts.py",
                  "cotengra/hyperoptimizers/hyper.py"]
ARITH_FUNCS = {"max", "prod", "sum", "pow", "math.prod", "math.pow", "math.log", "math.log2",
               "math.log10", "math.sqrt", "abs", "compute_size_by_dict"}


def _tainted_names(func):
    names = {"chi"} if ("chi" in func.params or True) else set()
    changed = True
    while changed:
        changed = False
        for n in walk_local(func.node):
            if isinstance(n, ast.Assign) and len(n.targets) == 1 and \
                    isinstance(n.targets[0], ast.Name):
                v = n.value
                if _is_chi(v, names) and n.targets[0].id not in names:
                    names.add(n.targets[0].id)
                    changed = True
    return names


def _is_chi(e, names):
    if isinstance(e, ast.Name) and e.id in names:
        return True
    if isinstance(e, ast.Attribute) and e.attr == "chi":
        return True
    return False


def _classify(func, node, names):
    """context of a chi load: ('ok'|'bad', why)"""
    parents = func.module.parents
    par = parents.get(node)
    child = node
    while isinstance(par, (ast.Starred,)) or (
            isinstance(par, (ast.GeneratorExp, ast.ListComp, ast.SetComp)) and par.elt is child):
        child, par = par, parents.get(par)
    if isinstance(par, ast.Attribute) and par.value is child:
        # chi.something — e.g. minimize.chi handled at the Attribute itself
        return "ok", "attribute access on a chi-carrying object"
    if isinstance(par, ast.Compare):
        return "ok", "comparison"
    if isinstance(par, ast.Call):
        d = dotted(par.func)
        if child in par.args or any(k.value is child for k in par.keywords):
            if d == "min":
                return "ok", "cap: min(..., chi)"
            if d in ARITH_FUNCS:
                return "bad", f"argument of {d}(...)"
            return "ok", "passed on as an argument"
        return "ok", "callee"
    if isinstance(par, ast.keyword):
        g = parents.get(par)
        d = dotted(g.func) if isinstance(g, ast.Call) else None
        if d == "min":
            return "ok", "cap"
        if d in ARITH_FUNCS:
            return "bad", f"argument of {d}(...)"
        return "ok", "passed on as a keyword argument"
    if isinstance(par, ast.Assign):
        for t in par.targets:
            if isinstance(t, ast.Subscript) and "size" in ast.unparse(t.value):
                return "bad", f"stored directly into {C.unparse(t.value)}[...]"
            if isinstance(t, ast.Subscript):
                return "bad", f"stored into a table {C.unparse(t)}"
        return "ok", "aliasing / attribute store"
    if isinstance(par, (ast.AugAssign,)):
        return "bad", "augmented arithmetic"
    if isinstance(par, ast.BinOp):
        return "bad", f"arithmetic operand ({type(par.op).__name__})"
    if isinstance(par, ast.UnaryOp):
        return "bad", "arithmetic operand"
    if isinstance(par, ast.IfExp):
        # a if a < chi else chi  /  chi if chi < a else a
        t = par.test
        if child is par.test:
            return "ok", "condition"
        if isinstance(t, ast.Compare) and len(t.ops) == 1:
            l, rr = t.left, t.comparators[0]
            other = par.orelse if child is par.body else par.body
            a, b = C.unparse(l), C.unparse(rr)
            me, ot = C.unparse(child), C.unparse(other)
            op = type(t.ops[0])
            # result is the smaller of the two
            if child is par.orelse and {a, b} == {me, ot}:
                # value-if-true is `other`; condition must say other < me
                if (a == ot and op in (ast.Lt, ast.LtE)) or (a == me and op in (ast.Gt, ast.GtE)):
                    return "ok", "cap: conditional minimum"
            if child is par.body and {a, b} == {me, ot}:
                if (a == me and op in (ast.Lt, ast.LtE)) or (a == ot and op in (ast.Gt, ast.GtE)):
                    return "ok", "cap: conditional minimum"
        return "bad", "conditional expression that is not a minimum with the uncapped value"
    if isinstance(par, (ast.Return, ast.FormattedValue, ast.JoinedStr, ast.Tuple, ast.List,
                        ast.Dict, ast.If, ast.While, ast.BoolOp, ast.Expr, ast.Yield,
                        ast.comprehension, ast.Subscript, ast.Assert)):
        if isinstance(par, ast.Subscript) and par.slice is child:
            return "ok", "key"
        return "ok", type(par).__name__.lower()
    return "ok", type(par).__name__.lower()


def rule_cap(ctx):
    r = RuleResult("C20-CAP", "the cap chi reaches sizes only through min()/comparison", 15)
    scope = SCOPE + (THOROUGH_SCOPE if ctx.tier == "thorough" else [])
    caps = 0
    for path in scope:
        m = ctx.p.modules.get(path)
        if m is None:
            if path in SCOPE:
                raise AnalysisError(f"anchor module {path} not found")
            continue
        for f in m.all_funcs:
            names = _tainted_names(f)
            for n in walk_local(f.node):
                if not (isinstance(n, (ast.Name, ast.Attribute)) and
                        isinstance(getattr(n, "ctx", None), ast.Load)):
                    continue
                if not _is_chi(n, names):
                    continue
                if isinstance(n, ast.Name) and n.id not in names:
                    continue
                # skip the Name inside an Attribute `x.chi` (handled at the Attribute)
                verdict, why = _classify(f, n, names)
                key = ctx.key(f, "C20-CAP", f"{C.unparse(n)}:{why.split(':')[0]}")
                if verdict == "ok":
                    if why.startswith("cap"):
                        caps += 1
                    r.ok(key, C.loc(f, n), why)
                else:
                    r.violation(key, C.loc(f, n), f"the cap enters a size computation as "
                                f"{why}, not through min(uncapped, chi)",
                                stmt=C.unparse(C.enclosing_stmt(f, n)))
    if caps < 2 and not r.violations:
        raise AnalysisError(f"only {caps} min(..., chi) cap sites recognised (expected >= 2: "
                            "HyperGraph.compress, candidate_contraction_size)")
    r.note(f"{caps} cap sites of the form min(uncapped, chi)")
    return r


def rule_sizewrites(ctx):
    """Inside the compressed simulators, the size table may only be written with a
    min(...) capped value or an uncapped product."""
    r = RuleResult("C20-SIZEWRITE", "size-table writes in HyperGraph are capped minima", 1)
    hg = ctx.p.cls(C.HYPERGRAPH, "HyperGraph")
    for f in hg.methods.values():
        for n in walk_local(f.node):
            if isinstance(n, ast.Assign):
                for t in n.targets:
                    if isinstance(t, ast.Subscript) and C.unparse(t.value) == "self.size_dict":
                        key = ctx.key(f, "C20-SIZEWRITE")
                        v = n.value
                        uses_chi = any(_is_chi(x, {"chi"}) for x in ast.walk(v))
                        if not uses_chi:
                            r.ok(key, C.loc(f, n), "uncapped write")
                        elif isinstance(v, ast.Call) and dotted(v.func) == "min" and \
                                len(v.args) == 2:
                            r.ok(key, C.loc(f, n), "min(uncapped, chi)")
                        elif isinstance(v, ast.IfExp) and _classify(f, [x for x in ast.walk(v)
                                                                       if _is_chi(x, {"chi"})][0],
                                                                   {"chi"})[0] == "ok":
                            r.ok(key, C.loc(f, n), "conditional minimum")
                        else:
                            r.violation(key, C.loc(f, n), "size written from chi without min "
                                        "against the uncapped size", value=C.unparse(v))
    return r


def _fresh(ctx, f, fl, e, at, depth=0):
    """expression certainly evaluates to a newly created mapping"""
    if depth > 4:
        return False
    if isinstance(e, (ast.Dict, ast.DictComp)):
        return True
    if isinstance(e, ast.Call):
        d = dotted(e.func) or ""
        if d in ("dict", "collections.OrderedDict", "OrderedDict", "copy.copy", "copy.deepcopy"):
            return True
        if isinstance(e.func, ast.Attribute) and e.func.attr == "copy" and not e.args:
            return True
        return False
    if isinstance(e, ast.IfExp):
        return _fresh(ctx, f, fl, e.body, at, depth + 1) and _fresh(ctx, f, fl, e.orelse, at, depth + 1)
    if isinstance(e, ast.Name):
        defs = fl.defs_reaching(e.id, at)
        strong = [d for d in defs if d.kind != "mutate"]
        return bool(strong) and all(d.kind == "assign" and d.value is not None and d.index is None
                                    and _fresh(ctx, f, fl, d.value, d.node, depth + 1)
                                    for d in strong)
    return False


def rule_own(ctx):
    """The simulator overwrites entries of its size table when it fuses bonds
    (C20-SIZEWRITE), so that table has to be its own: every place that installs a
    size table in a HyperGraph installs a fresh copy, never the caller's mapping
    (the tree's size_dict, which later estimates and the exact figures read)."""
    r = RuleResult("C20-OWN", "the simulator's size table is a private copy", 2)
    hg = ctx.p.cls(C.HYPERGRAPH, "HyperGraph")
    writes = [f for f in hg.methods.values() for n in walk_local(f.node)
              if isinstance(n, ast.Assign) and any(
                  isinstance(t, ast.Subscript) and C.unparse(t.value) == "self.size_dict"
                  for t in n.targets)]
    if not writes:
        r.exempt(f"{C.HYPERGRAPH}::HyperGraph::C20-OWN", hg.loc if hasattr(hg, "loc") else "",
                 "no method writes into the size table any more: sharing it is harmless")
        r.min_instances = 0
        return r
    for f in hg.methods.values():
        fl = None
        for n in walk_local(f.node):
            if not isinstance(n, ast.Assign):
                continue
            for t in n.targets:
                if isinstance(t, ast.Attribute) and t.attr == "size_dict" and isinstance(t.value, ast.Name):
                    fl = fl or ctx.flow(f)
                    at = fl.node_of_expr(n.value)
                    key = ctx.key(f, "C20-OWN", t.value.id)
                    if _fresh(ctx, f, fl, n.value, at):
                        r.ok(key, C.loc(f, n), "fresh copy installed", value=C.unparse(n.value, 60))
                    else:
                        r.violation(key, C.loc(f, n), f"`{C.unparse(n.value, 60)}` may be the caller's own "
                                    f"mapping, and {writes[0].qual} overwrites entries of it when bonds are "
                                    "fused: the capped sizes leak into the tree's size_dict and every later "
                                    "estimate (and the exact figures) of the same tree")
    return r


def rule_siblings(ctx):
    r = RuleResult("C20-SIBLING", "compress and its cost estimate agree on what is truncated", 3)
    hg = ctx.p.cls(C.HYPERGRAPH, "HyperGraph")
    # (a) both group only non-output edges
    for name in ("compress", "neighborhood_compress_cost"):
        f = hg.methods.get(name)
        C.require(f is not None, f"HyperGraph.{name} not found")
        key = ctx.key(f, "C20-SIBLING", "output-excluded")
        appends = [n for n in walk_local(f.node) if isinstance(n, ast.Call)
                   and isinstance(n.func, ast.Attribute) and n.func.attr == "append"
                   and "incidences" in ast.unparse(n.func.value)]
        C.require(appends, f"{name}: grouping of edges by incident nodes not recognised")
        ok = all(any("not in self.output" in C.unparse(i.test) and t
                     for i, t in C.enclosing_ifs(f, C.enclosing_stmt(f, a))) for a in appends)
        if ok:
            r.ok(key, f.loc, "output indices are never candidates for fusion")
        else:
            r.violation(key, C.loc(f, appends[0]), "edges are grouped for fusion without "
                        "excluding output indices: an output index shared by several tensors is "
                        "fused with (or swallowed by) the bonds between them even when nothing "
                        "needs truncating")
    # (b) a compression cost is charged iff compress would truncate (size > chi)
    f = hg.methods.get("neighborhood_compress_cost")
    key = ctx.key(f, "C20-SIBLING", "threshold")
    cmps = [n for n in walk_local(f.node) if isinstance(n, ast.Compare) and len(n.ops) == 1
            and any(_is_chi(x, {"chi"}) for x in (n.left, n.comparators[0]))]
    C.require(cmps, "threshold test of neighborhood_compress_cost not recognised")
    for c in cmps:
        op = type(c.ops[0])
        if _is_chi(c.left, {"chi"}):
            op = {ast.Lt: ast.Gt, ast.Gt: ast.Lt, ast.LtE: ast.GtE, ast.GtE: ast.LtE}.get(op, op)
        par = f.module.parents.get(c)
        skip = isinstance(par, ast.If) and any(isinstance(x, ast.Continue) for x in par.body)
        # normalised: charge iff size > chi   <=>   skip iff size <= chi
        good = (not skip and op is ast.Gt) or (skip and op is ast.LtE)
        if good:
            r.ok(key, C.loc(f, c), "cost charged iff the multibond exceeds chi (the case in which "
                 "compress truncates)")
        else:
            r.violation(key, C.loc(f, c), f"`{C.unparse(c)}` charges a compression cost for a "
                        "bond of size exactly chi, which compress (min(size, chi)) leaves "
                        "untouched: with the cap equal to the largest bond the estimate exceeds "
                        "the exact flops")
    return r


def rule_samecap(ctx):
    """The truncation (``HyperGraph.compress``) and its cost estimate (the trackers'
    ``neighborhood_compress_cost(self.chi, ...)``) are two parties that each get the cap from
    their caller; "a cost is charged iff compress truncates" ([C20-SIBLING]) holds only if they get
    the *same* cap.  Every object that keeps a cap (``self.chi = ...``) keeps the caller's value
    unchanged, or its documented 'auto' resolution under the ``chi == "auto"`` test (seed C20_7
    clamped the tracker's cap to the auto value)."""
    r = RuleResult("C20-SAMECAP", "every party keeps the caller's bond cap unchanged", 3)
    paths = SCOPE + (THOROUGH_SCOPE if ctx.tier == "thorough" else [])
    for path in paths:
        if path not in ctx.p.modules:
            continue
        for f in ctx.p.module(path).all_funcs:
            fl = None
            for n in walk_local(f.node):
                if not (isinstance(n, ast.Assign) and any(isinstance(t, ast.Attribute) and t.attr == "chi"
                                                          and dotted(t.value) == "self" for t in n.targets)):
                    continue
                fl = fl or ctx.flow(f)
                key = ctx.key(f, "C20-SAMECAP", "store")
                at = fl.cfg.containing(n, f.module.parents)
                v = n.value
                auto_guard = any(in_true and _is_auto_test(i.test) for i, in_true in C.enclosing_ifs(f, n))
                verdict = _cap_value(f, fl, v, at.id)
                if auto_guard and verdict != "param":
                    r.ok(key, C.loc(f, n), f"'auto' resolution `{C.unparse(v, 50)}` under the chi == \"auto\" test")
                elif verdict == "param":
                    r.ok(key, C.loc(f, n), "the caller's cap is kept as given")
                else:
                    r.violation(key, C.loc(f, n), f"`{C.unparse(n, 60)}` keeps a cap that differs from the one the "
                                f"caller gave ({verdict}): the cost estimate and the truncation it prices no "
                                f"longer use the same cap, so a compression is charged that never happens (or the "
                                f"reverse)")
    return r


def _is_auto_test(t):
    return isinstance(t, ast.Compare) and len(t.ops) == 1 and isinstance(t.ops[0], ast.Eq) and \
        isinstance(t.comparators[0], ast.Constant) and t.comparators[0].value == "auto"


def _cap_value(f, fl, v, at, depth=0):
    """'param' if the value is a parameter of f unchanged (through plain aliases / conversions that
    keep the value), else a description"""
    if depth > 4:
        return "too deep"
    if isinstance(v, ast.Name):
        defs = fl.defs_reaching(v.id, at)
        if not defs:
            return f"`{v.id}` undefined"
        out = set()
        for d in defs:
            if d.kind == "param":
                out.add("param")
            elif d.value is not None and d.index is None:
                # a definition under the auto test is the auto resolution
                st = fl.cfg.nodes[d.node].ast
                if st is not None and any(in_true and _is_auto_test(i.test) for i, in_true in C.enclosing_ifs(f, st)):
                    out.add("param")
                else:
                    out.add(_cap_value(f, fl, d.value, d.node, depth + 1))
            else:
                out.add("unpacked")
        out.discard("param")
        return "param" if not out else sorted(out)[0]
    if isinstance(v, ast.Attribute) and v.attr == "chi":
        return "param"
    if isinstance(v, ast.Call) and dotted(v.func) in ("int", "float") and len(v.args) == 1:
        return _cap_value(f, fl, v.args[0], at, depth + 1)
    if isinstance(v, ast.IfExp) and _is_auto_test(v.test):
        return _cap_value(f, fl, v.orelse, at, depth + 1)
    if isinstance(v, ast.IfExp):
        a, b = _cap_value(f, fl, v.body, at, depth + 1), _cap_value(f, fl, v.orelse, at, depth + 1)
        return "param" if a == b == "param" else (a if a != "param" else b)
    return f"`{C.unparse(v, 40)}`"


def rule_topo(ctx):
    """Shared with C02-TOPO (seed C20_8): the estimator replays the tree in ``traverse(order)``; for a
    compressed tree the default order is the surface order, i.e. the ordered traversal, and a parent
    visited before its child makes every estimate raise instead of returning a figure."""
    from .c02 import rule_topo as src

    return C.reuse_rule(ctx, src, "C02-TOPO", "C20-TOPO",
                        "the estimator visits children before parents", lambda i: True, 1)


def rule_range(ctx):
    """Sibling cross-check of *which tensors* the 'largest tensor' figure ranges
    over in the exact tree and in the compressed tracker."""
    r = RuleResult("C20-RANGE", "exact and compressed 'largest tensor' range over the same tensors", 1)
    tc = ctx.p.cls(C.CORE, "ContractionTree")
    tr = ctx.p.cls(C.SCORING, "CompressedStatsTracker")
    init = tr.methods.get("__init__")
    C.require(init is not None, "CompressedStatsTracker.__init__ not found")
    # does the tracker seed max_size from the input tensors?
    seeds = None
    for n in walk_local(init.node):
        if isinstance(n, ast.For) and "nodes" in ast.unparse(n.iter):
            for st in ast.walk(n):
                if isinstance(st, ast.Assign) and C.unparse(st.targets[0]) == "self.max_size":
                    seeds = st
    # does the exact figure include leaves?
    exact_leaves = False
    for name in ("max_size", "contract_stats"):
        f = tc.lookup(name)
        C.require(f is not None, f"ContractionTree.{name} not found")
        for n in walk_local(f.node):
            if isinstance(n, ast.For) and "_sizes.add" in " ".join(ast.unparse(b) for b in n.body):
                if "gen_leaves" in ast.unparse(n.iter) or ".info" in ast.unparse(n.iter):
                    exact_leaves = True
    key = ctx.key(init, "C20-RANGE")
    if (seeds is not None) == exact_leaves:
        r.ok(key, init.loc, "both figures range over the same set of tensors "
             f"({'inputs included' if exact_leaves else 'intermediates only'})")
    else:
        r.violation(key, C.loc(init, seeds) if seeds is not None else init.loc,
                    "the compressed tracker seeds its largest-tensor figure with the input "
                    "tensors while the exact max_size ranges over intermediates only (or vice "
                    "versa): with nothing truncated the two differ whenever an input is the "
                    "largest tensor")
    return r


def _unary_step_producers(ctx):
    """functions whose returned (ssa) path may contain unary single-term steps:
    they return the ``ssa_path`` of a ContractionProcessor that may have been
    ``simplify()``-ed (simplify_single_terms appends ``(i,)``)"""
    m = ctx.p.module(C.BASIC)
    cp = m.classes.get("ContractionProcessor")
    C.require(cp is not None, "ContractionProcessor not found")
    sst = cp.methods.get("simplify_single_terms")
    unary = sst is not None and any(
        isinstance(n, ast.Call) and isinstance(n.func, ast.Attribute) and n.func.attr == "append"
        and n.args and isinstance(n.args[0], ast.Tuple) and len(n.args[0].elts) == 1
        for n in walk_local(sst.node))
    if not unary:
        return {}
    out = {}
    for f in m.funcs.values():
        txt = ast.unparse(f.node)
        if ".simplify()" in txt and "ssa_path" in txt and "simplify" in f.params:
            out[f.key] = f
    return out


def rule_steps(ctx):
    """Last clause of C20 (compressed pathfinders return a complete tree): a path
    produced by an optimizer that may emit unary simplification steps must not be
    consumed by a loop that unpacks every step into exactly two ids."""
    r = RuleResult("C20-STEPS", "consumers of optimizer paths handle unary simplification steps", 1)
    prods = _unary_step_producers(ctx)
    C.require(prods, "no producer of unary path steps recognised (simplify_single_terms)")
    paths = ["cotengra/pathfinders/path_compressed_greedy.py", "cotengra/pathfinders/path_compressed.py",
             C.CORE, C.INTERFACE] if ctx.tier == "quick" else list(ctx.p.modules)
    n_cons = 0
    for path in paths:
        m = ctx.p.modules.get(path)
        if m is None:
            continue
        for f in m.all_funcs:
            la = ctx.r.local_assignments(f)
            for n in walk_local(f.node):
                if not (isinstance(n, (ast.For, ast.comprehension)) and
                        isinstance(n.target, ast.Tuple) and len(n.target.elts) == 2):
                    continue
                src = n.iter
                if isinstance(src, ast.Name) and len(la.get(src.id, [])) == 1:
                    src = la[src.id][0]
                if not isinstance(src, ast.Call):
                    continue
                res = ctx.r.resolve_call(f, src)
                hit = [c for c in res.callees if c.key in prods]
                if not hit:
                    continue
                n_cons += 1
                key = ctx.key(f, "C20-STEPS", hit[0].name)
                kw = {k.arg: k.value for k in src.keywords}
                kw.update(res.bound)
                off = isinstance(kw.get("simplify"), ast.Constant) and kw["simplify"].value is False
                if off:
                    r.ok(key, C.loc(f, n), "producer called with simplify=False: only pair steps")
                else:
                    r.violation(key, C.loc(f, n), f"each step of the path returned by "
                                f"{hit[0].name}() is unpacked into two ids, but with "
                                "simplify=True the path contains unary single-term steps (i,): "
                                "the pathfinder raises for ordinary networks")
    # consumers that iterate step-wise without fixed arity are fine; report how many
    # fixed-arity consumers were checked
    if n_cons == 0:
        r.ok(f"{C.BASIC}::C20-STEPS::none", C.BASIC, "no fixed-arity consumer of a simplifying "
             "optimizer's path in scope")
    if not getattr(ctx, "_is_positive_example", False) and not r.violations:
        r.note(C.positive_example(
            ctx, rule_steps,
            [("cotengra/pathfinders/path_compressed_greedy.py",
              "def greedy_compressed(inputs, output, size_dict, memory_limit=None, **kwargs):",
              "def _c20_positive_example(inputs, output, size_dict):\n"
              "    return [(a, b) for a, b in ssa_greedy_optimize(inputs, output, size_dict)]\n\n\n"
              "def greedy_compressed(inputs, output, size_dict, memory_limit=None, **kwargs):")],
            "_c20_positive_example"))
    return r


def rule_reset(ctx):
    """A pathfinder object may be used for more than one network.  Containers on the
    instance that a search *accumulates into* (append / heappush / insert ...) are
    therefore re-created at the start of every search: a direct assignment in the
    search entry that precedes everything that fills them."""
    r = RuleResult("C20-RESET", "per-search accumulators of compressed pathfinders are reset per search", 1)
    mods = ["cotengra/pathfinders/path_compressed_greedy.py"]
    if ctx.tier == "thorough":
        mods.append("cotengra/pathfinders/path_compressed.py")
    n_cls = 0
    for path in mods:
        m = ctx.p.modules.get(path)
        if m is None:
            continue
        for cls in [c for c in ctx.p.classes.values() if c.module is m]:
            entry = cls.methods.get("get_ssa_path")
            if entry is None:
                continue
            n_cls += 1
            # attributes mutated in place by the search closure (own-object methods)
            mutated = {}
            seen, stack = set(), [entry]
            while stack:
                g = stack.pop()
                if g.key in seen:
                    continue
                seen.add(g.key)
                for a in ctx.effects.direct(g)["access"]:
                    if a.recv == "self" and a.kind == "mutate":
                        mutated.setdefault(a.attr, (g, a))
                for n in walk_local(g.node):
                    # heapq.heappush(self.x, ..) and friends mutate their first argument
                    if isinstance(n, ast.Call) and (dotted(n.func) or "").split(".")[-1] in (
                            "heappush", "heappop", "heapify", "heappushpop", "insort") and n.args and \
                            isinstance(n.args[0], ast.Attribute) and isinstance(n.args[0].value, ast.Name) \
                            and n.args[0].value.id == "self":
                        mutated.setdefault(n.args[0].attr, (g, None))
                for call, res in ctx.r.calls_in(g):
                    if isinstance(call.func, ast.Attribute) and isinstance(call.func.value, ast.Name) \
                            and call.func.value.id == "self":
                        stack += [c for c in res.callees if c.cls is not None and cls.is_subclass_of(c.cls)]
            for attr in sorted(mutated):
                key = f"{path}::{cls.name}::C20-RESET::{attr}"
                # reset: a top-level `self.attr = <fresh>` in the entry, before the first
                # top-level statement that mentions the attribute otherwise or calls a self method
                reset_at = first_use = None
                for i, st in enumerate(entry.node.body):
                    if isinstance(st, ast.Assign) and any(
                            isinstance(t, ast.Attribute) and t.attr == attr and
                            isinstance(t.value, ast.Name) and t.value.id == "self" for t in st.targets):
                        if reset_at is None:
                            reset_at = i
                        continue
                    uses = any(isinstance(x, ast.Attribute) and x.attr == attr and
                               isinstance(x.value, ast.Name) and x.value.id == "self"
                               for x in ast.walk(st))
                    calls_self = False
                    for x in ast.walk(st):
                        if isinstance(x, ast.Call) and isinstance(x.func, ast.Attribute) and \
                                isinstance(x.func.value, ast.Name) and x.func.value.id == "self":
                            for c in ctx.r.resolve_call(entry, x).callees:
                                t = ctx.effects.transitive(c)
                                if attr in (t["read"] | t["write"] | t["mutate"]):
                                    calls_self = True
                    if (uses or calls_self) and first_use is None:
                        first_use = i
                if reset_at is not None and (first_use is None or reset_at < first_use):
                    r.ok(key, C.loc(entry, entry.node.body[reset_at]), "re-created at the start of every search")
                else:
                    g, a = mutated[attr]
                    r.violation(key, entry.loc, f"self.{attr} is filled during a search ({g.qual}) but not "
                                "re-created at the start of get_ssa_path: a second search on the same "
                                "object continues from the previous network's steps and candidates, and "
                                "the returned path is not a complete ordered tree of the new network")
    C.require(n_cls >= 1, "no compressed pathfinder class with get_ssa_path found")
    if not r.instances:
        r.min_instances = 0
        r.note("no instance-level accumulators in the compressed pathfinders")
    return r


def rule_freshstats(ctx):
    """The estimates are recomputed from the current tree on every request: the
    estimator entry keeps nothing on the tree (no per-node entry, no attribute), so
    an in-place change of the tree can never be answered with the figures of the
    tree as it was.  Lazy ``if x is None`` defaults are not state of that kind."""
    from .c02 import real_writes, tree_class
    r = RuleResult("C20-FRESHSTATS", "compressed estimates are recomputed, never memoised on the tree", 1)
    tc = tree_class(ctx)
    f = tc.lookup("compressed_contract_stats")
    C.require(f is not None, "compressed_contract_stats not found")
    key = ctx.key(f, "C20-FRESHSTATS")
    stores = [n for kind, k, ne, n, v, ke in C.info_key_accesses(f) if kind == "store"]
    w = real_writes(ctx, f)
    if stores:
        r.violation(key, C.loc(f, stores[0]), f"`{C.unparse(stores[0], 60)}` keeps the simulated "
                    "contraction in a per-node entry: it depends on the whole tree, the entry is only "
                    "dropped when that node is rebuilt, so after an in-place change below it the "
                    "estimates describe the old tree while the exact figures describe the new one")
    elif w:
        r.violation(key, f.loc, f"the estimator writes tree state {sorted(w)}")
    else:
        r.ok(key, f.loc, "stateless: a fresh hypergraph and tracker per call")
    return r


def rule_surv(ctx):
    """Shared with C18-SURV: with an uncapped chi the estimates equal the exact figures
    only if the hypergraph keeps exactly the indices the tree keeps."""
    from .c18 import rule_surv as src

    return C.reuse_rule(ctx, src, "C18-SURV", "C20-SURV",
                        "the hypergraph simulator keeps an index iff it is still on another node "
                        "or in the output", lambda i: C.HYPERGRAPH in i.construct, 2)


def rule_ledger(ctx):
    """'With nothing truncated the compressed estimates equal the exact figures' rests on the tracker being a
    plain ledger of the simulated steps.  Each of its update methods is straight-line arithmetic on its slots;
    evaluated symbolically (sa/engine/symbolic.py, slots and hypergraph queries as symbols):
      pre_step       size_change = flops_change = 0
      pre_contract   size_change -= size(i) + size(j);  flops_change += pair cost
      post_contract  contracted = size(ij); size_change += contracted; total_post_contract = total + size_change
      pre/post_compress  size_change -= N, then += N (same neighbourhood query): net zero when nothing changed;
                     flops_change += compress cost (zero when nothing exceeds the cap, [C20-SIBLING])
      post_step      flops += flops_change; write += contracted; total += size_change;
                     max_size = max(max_size, contracted); peak = max(peak, total_post_contract)
      update_score   the same four figures, started from the *other* tracker (sibling of post_step)."""
    from ..engine.symbolic import Interp, Poly

    r = RuleResult("C20-LEDGER", "the compressed tracker is a ledger of the simulated steps", 6)
    tr = ctx.p.cls(C.SCORING, "CompressedStatsTracker")
    C.require(tr is not None, "CompressedStatsTracker not found")
    slots = ["flops", "max_size", "peak_size", "write", "total_size", "total_size_post_contract", "contracted_size",
             "size_change", "flops_change"]
    S = {a: Poly.sym(a) for a in slots}

    def run(name):
        f = tr.methods.get(name)
        C.require(f is not None, f"CompressedStatsTracker.{name} not found")
        params = [a.arg for a in f.node.args.args]
        env = {f"self.{a}": S[a] for a in slots}
        env.update({f"other.{a}": Poly.sym("o_" + a) for a in slots})
        it = Interp(env=env)
        it.track_attrs = True
        hgq = {}

        # hypergraph queries become symbols keyed by (method, arguments)
        class Q(ast.NodeVisitor):
            def visit_Call(self, n):
                if isinstance(n.func, ast.Attribute) and isinstance(n.func.value, ast.Name) and n.func.value.id == "hg":
                    txt = " ".join(ast.unparse(n).split())
                    hgq[txt] = Poly.sym(f"{n.func.attr}({', '.join(ast.unparse(a) for a in n.args)})")
                self.generic_visit(n)
        Q().visit(f.node)
        it.env0.update(hgq)
        effects = it.run(f.node.body)
        final = {}
        for e in effects:
            if e.kind in ("store", "aug") and e.target.startswith("self."):
                a = e.target[5:]
                if e.conds:
                    final[a] = "conditional"
                    continue
                if e.kind == "store":
                    final[a] = e.value
                else:
                    cur = final.get(a, S.get(a))
                    d_ = e.delta
                    final[a] = (cur + d_) if (isinstance(cur, Poly) and d_ is not None) else None
        return f, final

    def expect(name, want, why):
        f, got = run(name)
        if callable(want):
            want = want([a.arg for a in f.node.args.args][2:], f.node.args.vararg.arg if f.node.args.vararg else None)
        k = ctx.key(f, "C20-LEDGER")
        probs = []
        for a, w in want.items():
            g = got.get(a, S[a])
            if g != w:
                probs.append(f"`{a}` becomes {g}, expected {w}")
        extra = [a for a in got if a not in want and got[a] != S.get(a)]
        if extra:
            probs.append(f"also changes {sorted(extra)}")
        if probs:
            r.violation(k, f.loc, f"{name}: " + "; ".join(probs) + f" — {why}")
        else:
            r.ok(k, f.loc, f"{name}: " + ", ".join(f"{a} -> {w}" for a, w in want.items()))

    Z = Poly.const(0)
    expect("update_pre_step", {"size_change": Z, "flops_change": Z},
           "a step must start from zero changes, otherwise the previous step is counted again")
    expect("update_pre_contract", lambda ps, va: {
        "size_change": S["size_change"] - Poly.sym(f"node_size({ps[0]})") - Poly.sym(f"node_size({ps[1]})"),
        "flops_change": S["flops_change"] + Poly.sym(f"contract_pair_cost({ps[0]}, {ps[1]})")},
        "the two operands leave the total and the contraction's cost is charged once")
    expect("update_post_contract", lambda ps, va: {
        "contracted_size": Poly.sym(f"node_size({ps[0]})"), "size_change": S["size_change"] + Poly.sym(f"node_size({ps[0]})"),
        "total_size_post_contract": S["total_size"] + S["size_change"] + Poly.sym(f"node_size({ps[0]})")},
        "the new tensor enters the total; the peak candidate is the total right after the contraction")
    expect("update_pre_compress", lambda ps, va: {
        "size_change": S["size_change"] - Poly.sym(f"neighborhood_size({va})"),
        "flops_change": S["flops_change"] + Poly.sym(f"neighborhood_compress_cost(self.chi, {va})")},
        "the neighbourhood is struck off before it is compressed and re-entered after")
    expect("update_post_compress", lambda ps, va: {"size_change": S["size_change"] + Poly.sym(f"neighborhood_size({va})")},
           "the neighbourhood re-enters with the same query it was struck off with (net zero when nothing is truncated)")
    mx = lambda a, b: Poly.sym("max(" + ", ".join(sorted([repr(a), repr(b)])) + ")")  # noqa: E731
    expect("update_post_step", {"max_size": mx(S["max_size"], S["contracted_size"]),
                                "peak_size": mx(S["peak_size"], S["total_size_post_contract"]),
                                "total_size": S["total_size"] + S["size_change"],
                                "flops": S["flops"] + S["flops_change"],
                                "write": S["write"] + S["contracted_size"]},
           "totals advance by exactly this step's changes")
    O = {a: Poly.sym("o_" + a) for a in slots}
    f, got = run("update_score")
    k = ctx.key(f, "C20-LEDGER")
    want = {"flops": O["flops"] + S["flops_change"], "write": O["write"] + S["contracted_size"],
            "max_size": mx(O["max_size"], S["contracted_size"]),
            "peak_size": mx(O["peak_size"], S["total_size_post_contract"])}
    probs = [f"`{a}` becomes {got.get(a)}, expected {w}" for a, w in want.items() if got.get(a) != w]
    if probs:
        r.violation(k, f.loc, "update_score: " + "; ".join(probs) + " — scoring a candidate step from another tracker must "
                    "give the figures update_post_step would give (sibling)")
    else:
        r.ok(k, f.loc, "update_score: same four figures as update_post_step, started from the other tracker")
    return r


def rule_spanorder(ctx):
    """(seed C20_10) `GreedySpan.get_ssa_path` collects absorptions `(i, j)` ("i is absorbed into j") in *span*
    order — growing outwards from the start region — and reverses the whole list once at the end, so that the
    outermost tensors are contracted first.  The merges of the start region itself come from a greedy sub-path,
    i.e. in *execution* order; they must end up in execution order, so that segment is reversed once more before
    the span grows (two reversals in total), the span segment exactly once.  With the wrong parity a node is
    used after it was absorbed and the returned ids are stale ("tree seems to be over complete")."""
    r = RuleResult("C20-SPANORDER", "absorptions are replayed in an order in which no absorbed node is used again", 2)
    gs = ctx.p.cls("cotengra/pathfinders/path_compressed_greedy.py", "GreedySpan")
    C.require(gs is not None, "GreedySpan not found")
    f = gs.methods.get("get_ssa_path")
    C.require(f is not None, "GreedySpan.get_ssa_path not found")
    fl = ctx.flow(f)
    cfg = fl.cfg
    parents = f.module.parents
    # the list that is finally replayed: iterated by the loop that builds the returned path
    seqn = None
    returned = {dotted(n.value) for n in walk_local(f.node) if isinstance(n, ast.Return) and n.value is not None}
    for n in walk_local(f.node):
        if isinstance(n, ast.For) and isinstance(n.iter, ast.Name) and isinstance(n.target, ast.Tuple) and \
                any(isinstance(x, ast.Call) and isinstance(x.func, ast.Attribute) and x.func.attr == "append"
                    and dotted(x.func.value) in returned for x in ast.walk(n)):
            seqn = n.iter.id
            replay = n
    C.require(seqn is not None, "GreedySpan.get_ssa_path: replay loop not found")
    revs = [cfg.containing(n, parents).id for n in walk_local(f.node) if isinstance(n, ast.Call)
            and isinstance(n.func, ast.Attribute) and n.func.attr == "reverse" and dotted(n.func.value) == seqn]
    rn = cfg.node_of(replay)
    apps = [n for n in walk_local(f.node) if isinstance(n, ast.Call) and isinstance(n.func, ast.Attribute)
            and n.func.attr == "append" and dotted(n.func.value) == seqn]
    C.require(apps, "GreedySpan.get_ssa_path: no absorption is recorded")
    n_dec = 0
    for a in apps:
        st = C.enclosing_stmt(f, a)
        lps = C.enclosing_loops(f, st)
        kind = None
        for lp in lps:
            if isinstance(lp, ast.For):
                src = C.unparse(lp.iter)
                defs = ctx.r.local_assignments(f).get(src, []) if isinstance(lp.iter, ast.Name) else []
                if any("optimize" in C.unparse(d) or "ssa_path" in C.unparse(d) for d in defs) or "path" in src:
                    kind = "execution"
            elif isinstance(lp, ast.While):
                kind = kind or "span"
        if kind is None:
            continue
        n_dec += 1
        an = cfg.containing(a, parents)
        # reversals that every path from this append to the replay loop passes, outside the append's own loop
        own = {id(x) for lp in lps for x in ast.walk(lp)}
        cnt = 0
        for rv in revs:
            node_ast = cfg.nodes[rv].ast
            if id(node_ast) in own:
                continue
            if cfg.all_paths_pass(an.id, [rv], dst=rn.id):
                cnt += 1
        want = 2 if kind == "execution" else 1
        k = ctx.key(f, "C20-SPANORDER", kind)
        if cnt == want:
            r.ok(k, C.loc(f, a), f"{kind}-order absorptions pass {cnt} reversal(s) before they are replayed")
        else:
            r.violation(k, C.loc(f, a), f"absorptions recorded in {kind} order pass {cnt} reversal(s) of `{seqn}` before the replay, "
                        f"expected {want}: the segment is replayed backwards, a node is used after it was absorbed and the "
                        f"returned path re-uses a consumed id (no complete tree for an output carried by three or more tensors)"
                        if kind == "execution" else
                        f"absorptions recorded in span order pass {cnt} reversal(s), expected 1")
    C.require(n_dec >= 2, "GreedySpan.get_ssa_path: execution-order and span-order segments not both recognised")
    return r


def rule_bracket(ctx):
    """(seed C20_12) The tracker is a ledger of what the simulated network holds: it learns of a change only through
    the `update_pre_* / update_post_*` pair around it.  In every function that steps a tracked hypergraph, each
    `compress` is bracketed by `update_pre_compress` / `update_post_compress` and each `contract` by
    `update_pre_contract` / `update_post_contract` — dominance and post-dominance on the statement CFG, the opening
    call in the same block, with no other change of the hypergraph between.  A compression outside a bracket shrinks
    tensors the ledger still carries at full size: the estimated peak for a small cap exceeds the uncapped one."""
    r = RuleResult("C20-BRACKET", "every simulated change of the network is bracketed by the tracker's updates", 2)
    n_owner = 0
    for f in ctx.p.all_funcs(None):
        if f.module.path.startswith("cotengra/experimental"):
            continue
        ups = [c for c in walk_local(f.node) if isinstance(c, ast.Call) and isinstance(c.func, ast.Attribute)
               and c.func.attr in ("update_pre_compress", "update_pre_contract", "update_post_compress", "update_post_contract")
               and isinstance(c.func.value, ast.Name) and c.args and isinstance(c.args[0], ast.Name)]
        trk = [n for n in walk_local(f.node) if isinstance(n, ast.Assign) and isinstance(n.value, ast.Call)
               and (dotted(n.value.func) or "").split(".")[-1] == "CompressedStatsTracker" and isinstance(n.targets[0], ast.Name)]
        if not ups and not trk:
            continue
        n_owner += 1
        if ups:
            tname, hgname = ups[0].func.value.id, ups[0].args[0].id
        else:
            tname = trk[0].targets[0].id
            hgname = dotted(trk[0].value.args[0]) if trk[0].value.args else None
        C.require(hgname is not None, f"{f.qual}: the tracked hypergraph not recognised")
        fl = ctx.flow(f)
        cfg = fl.cfg
        calls = fl.calls()

        def nodes_of(method, recv):
            return [(n, c) for n, c in calls if isinstance(c.func, ast.Attribute) and c.func.attr == method and dotted(c.func.value) == recv]
        for kind in ("compress", "contract"):
            pres, posts = nodes_of(f"update_pre_{kind}", tname), nodes_of(f"update_post_{kind}", tname)
            changes = nodes_of(kind, hgname)
            others = [n.id for k2 in ("compress", "contract") for n, c in nodes_of(k2, hgname)]
            for i, (n, c) in enumerate(sorted(changes, key=lambda x: x[1].lineno)):
                k = ctx.key(f, "C20-BRACKET", f"{kind}#{i}")
                other_kind = [m_.id for k2 in ("compress", "contract") if k2 != kind for m_, _c in nodes_of(k2, hgname)]
                pre_ok = [p_ for p_, _ in pres if cfg.dominates(p_.id, n.id) and p_.id != n.id
                          and cfg.path_avoiding(p_.id, other_kind + [q_.id for q_, _ in posts], n.id) is not None]
                post_ok = [q_ for q_, _ in posts if cfg.postdominates(q_.id, n.id) and q_.id != n.id]
                if pre_ok and post_ok:
                    r.ok(k, C.loc(f, c), f"`{C.unparse(c, 50)}` lies between update_pre_{kind} and update_post_{kind}")
                else:
                    miss = ("update_pre_" + kind if not pre_ok else "") + (" and " if not pre_ok and not post_ok else "") + \
                        ("update_post_" + kind if not post_ok else "")
                    g = [C.unparse(i_.test, 40) for i_, t in C.enclosing_ifs(f, C.enclosing_stmt(f, c))]
                    r.violation(k, C.loc(f, c), f"`{C.unparse(c, 50)}`" + (f" under `{g[0]}`" if g else "") + f" changes the simulated network without {miss} "
                                "around it: the tracker keeps the old sizes in its running total, so sizes, peak and write it reports for a small "
                                "cap can exceed the uncapped ones")
    C.require(n_owner >= 1, "no function steps a CompressedStatsTracker")
    return r


def _shared_rules():
    """The tracker charges the hypergraph's pair cost per step: it equals the exact flops only if every involved index is counted once."""
    out = []

    def _mk(src_mod="c18", fn="rule_flops", old="C18-FLOPS", new="C20-PAIRCOST", mn=2):
        def rule(ctx):
            import importlib
            srcf = getattr(importlib.import_module("sa.rules." + src_mod), fn)
            return C.reuse_rule(ctx, srcf, old, new, "shared clause of " + old + " (also a necessary condition here)", lambda i: True, mn)
        rule.__name__ = "shared_" + new.lower().replace("-", "_")
        return rule
    out.append(_mk())
    return out


RULES = [rule_bracket, rule_spanorder, rule_ledger, rule_cap, rule_sizewrites, rule_own, rule_siblings, rule_samecap, rule_topo, rule_range, rule_steps, rule_surv,
         rule_freshstats, rule_reset] + _shared_rules()
