"""C15 — a crash while writing the on-disk cache never poisons later runs."""

from __future__ import annotations

import ast

from ..engine.program import AnalysisError, dotted, walk_local
from ..engine.report import RuleResult
from . import common as C

PID = "C15"
EXPLANATION = (
    "The crash-point quantifier collapses to the write idiom: (ATOMIC) every file "
    "opened for writing by DiskDict / reusable.py is a temporary sibling of the "
    "entry path (derived by with_name/with_suffix/tempfile in the same directory), "
    "never the path that __contains__/__getitem__ consult, and an os.replace/"
    "rename onto the entry path post-dominates the write on every normal path — so "
    "no kill point can leave a partial file under an entry name; (READER) "
    "DiskDict.__getitem__ maps a truncated/corrupt pickle to KeyError on every "
    "path (handlers for EOFError and UnpicklingError around pickle.load; every "
    "raise is a KeyError whose name is bound at that point); (DIRS) directory "
    "creation is idempotent and precedes the write; (PROMOTE) a file is moved onto a "
    "cache name only by the call that wrote and closed it. Decides the idiom, not the "
    "filesystem's behaviour. "
    "Later rounds added: "
    "(KEEP) the writer never deletes an entry path; (READER presence) an entry is present "
    "iff the memory layer or the entry file says so. "
    'Round 7: (ATOMIC own-temp) the temporary is named, inside the writing function, after process and thread (or a random token); copying routines write their destination in place. '
)
ASSUMPTIONS = (
    "POSIX rename atomicity within one directory/filesystem",
    "a truncated pickle raises EOFError or pickle.UnpicklingError",
)

WRITE_MODES = ("w", "a", "x", "+")
# shutil.move is deliberately absent: across filesystems it falls back to a
# copy that opens the destination for writing in place
REPLACERS = {"os.replace", "os.rename"}
# a hard link onto the entry name is atomic too (the entry is complete or absent); that it cannot
# displace an existing entry is C14's business (C14-OVERWRITE), not a crash-safety matter
ATOMIC_PUBLISH = REPLACERS | {"os.link"}
COPIERS = {"shutil.copyfile", "shutil.copy", "shutil.copy2", "shutil.copyfileobj", "shutil.move", "copyfile", "copy2"}
TEMPFILE_CTORS = {"tempfile.NamedTemporaryFile", "NamedTemporaryFile", "tempfile.mkstemp",
                  "mkstemp", "tempfile.TemporaryFile"}


def _scope(ctx):
    fs = []
    dd = ctx.p.cls(C.UTILS, "DiskDict")
    fs += list(dd.methods.values())
    fs += list(ctx.p.module(C.REUSABLE).all_funcs)
    if ctx.tier == "thorough":
        for f in ctx.p.all_funcs():
            if f.module.path in (C.UTILS, C.REUSABLE, C.HYPER) and f not in fs:
                if "json" in f.name:
                    continue  # user-facing export helpers, not the cache
                fs.append(f)
    return fs


def _is_write_open(call):
    d = dotted(call.func)
    if d in TEMPFILE_CTORS:
        return True
    if d in ("open", "io.open") or (isinstance(call.func, ast.Attribute)
                                    and call.func.attr == "open"):
        mode = None
        if d in ("open", "io.open"):
            if len(call.args) >= 2:
                mode = call.args[1]
        else:
            if call.args:
                mode = call.args[0]
        for k in call.keywords:
            if k.arg == "mode":
                mode = k.value
        if isinstance(mode, ast.Constant) and isinstance(mode.value, str):
            return any(c in mode.value for c in WRITE_MODES)
        return False
    if isinstance(call.func, ast.Attribute) and call.func.attr in ("write_bytes", "write_text"):
        return True
    # (seed C15_12) copying routines open their destination for writing in place
    if d in COPIERS and len(call.args) >= 2:
        return True
    return False


def _opened_path(call):
    d = dotted(call.func)
    if d in TEMPFILE_CTORS:
        return call
    if d in COPIERS:
        return call.args[1]
    if d in ("open", "io.open"):
        return call.args[0] if call.args else None
    if isinstance(call.func, ast.Attribute):
        return call.func.value
    return None


def _classify_path(ctx, func, expr, _depth=0):
    """'final' (an entry path: joinpath of the key), 'temp' (sibling derived from
    a final path or tempfile in its directory), or 'unknown'."""
    if _depth > 5 or expr is None:
        return "unknown", None
    if isinstance(expr, ast.Call):
        fn = expr.func
        if isinstance(fn, ast.Attribute):
            if fn.attr == "joinpath":
                return "final", None
            if fn.attr in ("with_name", "with_suffix", "with_stem"):
                base, _ = _classify_path(ctx, func, fn.value, _depth + 1)
                if base == "final":
                    return "temp", fn.value
                return "unknown", None
        d = dotted(fn)
        if d in ("tempfile.mkstemp", "tempfile.NamedTemporaryFile", "tempfile.mktemp",
                 "mkstemp", "NamedTemporaryFile", "tempfile.TemporaryFile"):
            for k in expr.keywords:
                if k.arg == "dir" and ("parent" in ast.unparse(k.value)
                                       or "dirname" in ast.unparse(k.value)):
                    return "temp", None
            return "elsewhere", None
        if d in ("str", "os.fspath", "pathlib.Path", "Path"):
            if expr.args:
                return _classify_path(ctx, func, expr.args[0], _depth + 1)
        return "unknown", None
    if isinstance(expr, ast.BinOp) and isinstance(expr.op, (ast.Add, ast.Div)):
        l, _ = _classify_path(ctx, func, expr.left, _depth + 1)
        if isinstance(expr.op, ast.Add) and l == "final":
            return "temp", expr.left
        if isinstance(expr.op, ast.Div):
            # directory / <key part> is an entry path; directory / <other> is not
            # a sibling derived from the entry and cannot be classified
            names = {x.id for x in ast.walk(expr.right) if isinstance(x, ast.Name)}
            if names & {"k", "key"}:
                return "final", None
            return "unknown", None
        return "unknown", None
    if isinstance(expr, ast.JoinedStr):
        for v in expr.values:
            if isinstance(v, ast.FormattedValue):
                k, _ = _classify_path(ctx, func, v.value, _depth + 1)
                if k == "final":
                    return "temp", v.value
        return "unknown", None
    if isinstance(expr, ast.Name):
        vals = ctx.r.local_assignments(func).get(expr.id)
        bind = ctx.__dict__.get("_c15_bind", {}).get(func.key)
        if not vals and bind is not None and expr.id in func.params:
            # parameter of a write helper: classify what the cache code passes for it
            kinds = set()
            for g, call in bind:
                pos = [p_ for p_ in func.positional if p_ not in ("self", "cls")]
                arg = None
                if expr.id in pos and pos.index(expr.id) < len(call.args):
                    arg = call.args[pos.index(expr.id)]
                for k in call.keywords:
                    if k.arg == expr.id:
                        arg = k.value
                kinds.add(_classify_path(ctx, g, arg, _depth + 1)[0] if arg is not None else "unknown")
            if len(kinds) == 1:
                return kinds.pop(), None
            return "unknown", None
        if vals and len(vals) == 1:
            k, src = _classify_path(ctx, func, vals[0], _depth + 1)
            return k, src
        if vals:
            kinds = {_classify_path(ctx, func, v, _depth + 1)[0] for v in vals}
            if len(kinds) == 1:
                return kinds.pop(), None
        return "unknown", None
    if isinstance(expr, ast.Subscript):  # mkstemp()[1]
        return _classify_path(ctx, func, expr.value, _depth + 1)
    return "unknown", None


def _names_tempfile(ctx, f, src, ctor_call):
    """``src`` denotes the file created by the tempfile constructor call: a name
    unpacked from it (``fd, tmp = mkstemp(...)``) or ``<with-target>.name``"""
    if not (isinstance(ctor_call, ast.Call) and dotted(ctor_call.func) in TEMPFILE_CTORS):
        return False
    root = src
    if isinstance(src, ast.Attribute) and src.attr == "name":
        root = src.value
    if not isinstance(root, ast.Name):
        return False
    for v in ctx.r.local_assignments(f).get(root.id, []):
        base = v.value if isinstance(v, ast.Subscript) else v
        if base is ctor_call:
            return True
    return False


def _with_helpers(ctx, scope):
    """scope functions plus repo functions they call that themselves open a file for
    writing (write helpers / context managers); records the call sites so that the
    helper's path parameter can be classified."""
    bind = ctx.__dict__.setdefault("_c15_bind", {})
    out = list(scope)
    for g in scope:
        for call, res in ctx.r.calls_in(g):
            for h in res.callees:
                if h is g or (h.cls is not None and h.name == "__init__"):
                    continue
                if any(isinstance(n, ast.Call) and _is_write_open(n) for n in walk_local(h.node)):
                    # also for helpers that are in scope themselves (package-wide analysis): their path
                    # parameter is classified through what the cache code passes for it
                    if (g, call) not in bind.setdefault(h.key, []):
                        bind[h.key].append((g, call))
                    if h not in out:
                        out.append(h)
    return out


def _in_cleanup_clause(f, node, protected):
    """``node`` sits in a ``finally`` body or an ``except`` handler of a try whose body
    contains ``protected``: it also runs when the protected statement failed."""
    parents = f.module.parents
    child, cur = node, parents.get(node)
    while cur is not None and cur is not f.node:
        if isinstance(cur, ast.Try):
            in_final = any(child is s for s in cur.finalbody)
            in_handler = any(child is h for h in cur.handlers)
            if (in_final or in_handler) and any(x is protected for b in cur.body for x in ast.walk(b)):
                return "finally" if in_final else "except"
        child, cur = cur, parents.get(cur)
    return None


def rule_atomic(ctx):
    r = RuleResult("C15-ATOMIC", "durable cache writes publish atomically", 1)
    for f in _with_helpers(ctx, _scope(ctx)):
        fl = None
        for call in [n for n in walk_local(f.node) if isinstance(n, ast.Call)]:
            if not _is_write_open(call):
                continue
            fl = fl or ctx.flow(f)
            pexpr = _opened_path(call)
            kind, _ = _classify_path(ctx, f, pexpr)
            key = ctx.key(f, "C15-ATOMIC", C.unparse(pexpr, 40))
            where = C.loc(f, call)
            if kind == "final":
                r.violation(key, where, "the entry path itself is opened for writing: a writer "
                            "killed mid-write leaves a partial entry under the name readers look up",
                            opened=C.unparse(pexpr))
                continue
            if kind == "elsewhere":
                r.violation(key, where, "the temporary file is created in the system temp "
                            "directory, not next to the entry: on another filesystem the final "
                            "move is a copy that writes the entry in place, so a writer killed "
                            "during it leaves a partial entry", opened=C.unparse(pexpr, 80))
                continue
            if kind == "unknown":
                r.violation(key, where, "cannot show that the path opened for writing is a "
                            "temporary sibling of the entry path", opened=C.unparse(pexpr))
                continue
            # the temp must be (re)creatable after a crash left one behind
            mode = None
            if dotted(call.func) in ("open", "io.open") and len(call.args) >= 2 and \
                    isinstance(call.args[1], ast.Constant):
                mode = call.args[1].value
            for k in call.keywords:
                if k.arg == "mode" and isinstance(k.value, ast.Constant):
                    mode = k.value.value
            if mode:
                src_txt = ""
                if isinstance(pexpr, ast.Name):
                    src_txt = " ".join(ast.unparse(v) for v in
                                       ctx.r.local_assignments(f).get(pexpr.id, []))
                unique = any(t in src_txt for t in ("getpid", "uuid", "get_ident", "mkstemp",
                                                    "token_hex", "NamedTemporaryFile"))
                if "a" in mode:
                    r.violation(key, where, "the temporary is opened in append mode: bytes left "
                                "by a writer that died are kept in front of the new entry")
                    continue
                if "x" in mode and not unique:
                    r.violation(key, where, "the temporary has a fixed name and is created "
                                "exclusively: the file a dead writer left behind makes every "
                                "later store of that entry fail (FileExistsError) until it is "
                                "deleted by hand", opened=src_txt[:80])
                    continue
            # (seed C15_11) the temporary belongs to one writer: its name is made, inside the writing function, from
            # something no concurrent writer shares — process *and* thread identity, or a random token.  A name computed
            # once per object (in the constructor) is shared by all threads using the object: one writer's replace then
            # publishes the file another is still writing, and a death in that window leaves a partial/mixed entry
            if not (isinstance(pexpr, ast.Call) and dotted(pexpr.func) in TEMPFILE_CTORS):
                cn0 = fl.cfg.containing(call, f.module.parents)
                dcalls = {d_[1].split(".")[-1] for d_ in fl.deps(pexpr, cn0.id, "may") if d_[0] == "call"}
                rnd = dcalls & {"uuid4", "uuid1", "token_hex", "token_urlsafe", "mkstemp", "NamedTemporaryFile", "mktemp", "urandom"}
                own = "getpid" in dcalls and (dcalls & {"get_ident", "get_native_id", "current_thread"})
                bind_ = ctx.__dict__.get("_c15_bind", {}).get(f.key)
                if not (rnd or own) and not (bind_ is not None and isinstance(pexpr, ast.Name) and pexpr.id in f.params):
                    r.violation(ctx.key(f, "C15-ATOMIC", "own-temp"), where, f"the temporary `{C.unparse(pexpr, 50)}` is not named after the writer at the "
                                "time of the write (no os.getpid() + thread identity, no random token, in this function): writers sharing the "
                                "object share the file, one's replace publishes what another is still writing, and a death in that window "
                                "leaves a partial or mixed entry under the final name", calls=sorted(dcalls))
                    continue
            # temp: a replace onto a final path must post-dominate
            cn = fl.cfg.containing(call, f.module.parents)
            reps = []
            for n, c2 in fl.calls():
                d = dotted(c2.func)
                src = dst = None
                if d in ATOMIC_PUBLISH and len(c2.args) >= 2:
                    src, dst = c2.args[0], c2.args[1]
                elif isinstance(c2.func, ast.Attribute) and c2.func.attr in ("replace", "rename", "link_to", "hardlink_to") \
                        and len(c2.args) == 1 and d not in ATOMIC_PUBLISH:
                    src, dst = c2.func.value, c2.args[0]
                if src is None:
                    continue
                if C.unparse(src) != C.unparse(pexpr) and not _names_tempfile(ctx, f, src, pexpr):
                    continue
                if _classify_path(ctx, f, dst)[0] == "final":
                    reps.append(n.id)
            # the move must happen after the file is closed: not inside the
            # ``with open(tmp)`` body (data may still sit in the write buffer)
            early = None
            wnode = None
            cur = f.module.parents.get(call)
            while cur is not None and cur is not f.node:
                if isinstance(cur, (ast.With, ast.AsyncWith)) and any(
                        it.context_expr is call for it in cur.items):
                    wnode = cur
                cur = f.module.parents.get(cur)
            if wnode is not None:
                for n2, c2 in fl.calls():
                    if n2.id in reps and any(x is c2 for b in wnode.body for x in ast.walk(b)):
                        closed_before = any(
                            isinstance(x, ast.Call) and isinstance(x.func, ast.Attribute)
                            and x.func.attr == "close" and x.lineno < c2.lineno
                            for b in wnode.body for x in ast.walk(b))
                        if not closed_before:
                            early = c2
            else:
                # open() without a with-block: require an explicit close before the move
                closes = [n2.id for n2, c2 in fl.calls() if isinstance(c2.func, ast.Attribute)
                          and c2.func.attr == "close"]
                for rid in reps:
                    if not any(fl.cfg.dominates(cid, rid) for cid in closes):
                        early = fl.cfg.nodes[rid].ast
            onfail = None
            for n2, c2 in fl.calls():
                if n2.id in reps:
                    where_ = _in_cleanup_clause(f, c2, call)
                    if where_:
                        onfail = (c2, where_)
            if onfail is not None:
                r.violation(key, C.loc(f, onfail[0]), f"the move onto the entry path sits in a `{onfail[1]}` "
                            "clause around the write: it also runs when the write was interrupted "
                            "(KeyboardInterrupt, disk full, MemoryError), publishing an empty or "
                            "truncated entry under the name readers look up")
                continue
            if early is not None:
                r.violation(key, C.loc(f, early), "the temporary is moved onto the entry path "
                            "before it is closed: the published entry can be empty/truncated if "
                            "the writer dies before the buffered data is flushed")
                continue
            if reps and fl.cfg.all_paths_pass(cn.id, reps):
                r.ok(key, where, "temporary sibling written, then moved onto the entry path "
                     "on every normal path", opened=C.unparse(pexpr))
            else:
                p = fl.cfg.path_avoiding(cn.id, reps)
                r.violation(key, where, "temporary file is written but not (always) moved onto "
                            "the entry path with os.replace/rename",
                            path=fl.cfg.describe_path(p) if p else "")
    return r


PUBLISHERS = REPLACERS | {"shutil.move", "shutil.copy", "shutil.copy2", "shutil.copyfile", "os.link",
                          "os.symlink"}


def rule_keep(ctx):
    """(seed C15_9) 'Entries stored before the crash remain readable': the writer never deletes an entry path.
    Publishing by unlink-then-link (or remove-then-rename) opens a window in which a kill leaves neither the
    old nor the new record."""
    r = RuleResult("C15-KEEP", "the writer never removes a published entry", 1)
    n_fun = 0
    for f in _with_helpers(ctx, _scope(ctx)):
        has_write = any(_is_write_open(n) for n in walk_local(f.node) if isinstance(n, ast.Call))
        if not has_write:
            continue
        n_fun += 1
        key = ctx.key(f, "C15-KEEP")
        bad = None
        for n in walk_local(f.node):
            if not isinstance(n, ast.Call):
                continue
            d = dotted(n.func)
            tgt = None
            if d in ("os.unlink", "os.remove") and n.args:
                tgt = n.args[0]
            elif isinstance(n.func, ast.Attribute) and n.func.attr in ("unlink",) and not n.args and d not in ("os.unlink",):
                tgt = n.func.value
            if tgt is not None and _classify_path(ctx, f, tgt)[0] == "final":
                bad = n
        if bad is not None:
            r.violation(key, C.loc(f, bad), f"`{C.unparse(bad, 50)}` deletes the entry before its replacement is published: a "
                        f"writer killed in between leaves the contraction without any record although one was stored "
                        f"before (a later cache-only run raises KeyError)")
        else:
            r.ok(key, f.loc, "no entry path is deleted by the writer")
    C.require(n_fun >= 1, "no writing function found for C15-KEEP")
    return r


def rule_promote(ctx):
    """A file may be moved onto a name of the cache only by the function execution that
    wrote and closed it: anything else (a 'recovery' of temporaries found on disk, a
    migration of files between layouts) publishes bytes whose completeness nobody
    knows - the temporary of a writer that died mid-dump is a truncated pickle."""
    r = RuleResult("C15-PROMOTE", "only freshly written files are moved onto entry names", 0)
    for f in _with_helpers(ctx, _scope(ctx)):
        fl = None
        for call in [n for n in walk_local(f.node) if isinstance(n, ast.Call)]:
            d = dotted(call.func)
            src = None
            if d in PUBLISHERS and len(call.args) >= 2:
                src = call.args[0]
            elif isinstance(call.func, ast.Attribute) and call.func.attr in ("replace", "rename", "link_to",
                                                                             "hardlink_to") \
                    and len(call.args) == 1 and d not in PUBLISHERS and not call.keywords:
                # pathlib: tmp.replace(final); str.replace has two arguments
                src = call.func.value
            if src is None:
                continue
            fl = fl or ctx.flow(f)
            cn = fl.cfg.containing(call, f.module.parents)
            key = ctx.key(f, "C15-PROMOTE", C.unparse(src, 40))
            opens = []
            for c2 in [n for n in walk_local(f.node) if isinstance(n, ast.Call)]:
                if not _is_write_open(c2):
                    continue
                pexpr = _opened_path(c2)
                if C.unparse(pexpr) == C.unparse(src) or _names_tempfile(ctx, f, src, pexpr):
                    on = fl.cfg.containing(c2, f.module.parents)
                    if on is not None and fl.cfg.dominates(on.id, cn.id):
                        opens.append(c2)
            if opens:
                r.ok(key, C.loc(f, call), f"`{C.unparse(src, 40)}` was written by this call before it is moved")
            else:
                r.violation(key, C.loc(f, call), f"`{C.unparse(call, 70)}` moves a file onto a cache name "
                            f"that this function did not write: a temporary left by a writer that died "
                            f"mid-write is published as a (truncated) entry")
    return r


def rule_reader(ctx):
    r = RuleResult("C15-READER", "reader treats a corrupt entry as absent", 2)
    dd = ctx.p.cls(C.UTILS, "DiskDict")
    g = dd.methods.get("__getitem__")
    C.require(g is not None, "DiskDict.__getitem__ not found")
    parents = g.module.parents
    # (a) pickle.load sits inside a try handling EOFError and UnpicklingError
    loads = [n for n in walk_local(g.node) if isinstance(n, ast.Call)
             and dotted(n.func) in ("pickle.load", "pickle.loads")]
    C.require(loads, "pickle.load in DiskDict.__getitem__ not found")
    for ld in loads:
        caught = set()
        cur = parents.get(ld)
        child = ld
        while cur is not None and cur is not g.node:
            if isinstance(cur, ast.Try) and any(child is s for s in cur.body):
                for h in cur.handlers:
                    if h.type is None:
                        caught.add("*")
                    else:
                        ts = h.type.elts if isinstance(h.type, ast.Tuple) else [h.type]
                        for t in ts:
                            caught.add((dotted(t) or "").split(".")[-1])
            child = cur
            cur = parents.get(cur)
        key = ctx.key(g, "C15-READER", "load-handlers")
        need = {"EOFError", "UnpicklingError"}
        if "*" in caught or "Exception" in caught or need <= caught:
            r.ok(key, C.loc(g, ld), "truncated/corrupt pickle is caught", caught=sorted(caught))
        else:
            r.violation(key, C.loc(g, ld), "a truncated entry escapes as "
                        f"{sorted(need - caught)} instead of reading as absent",
                        caught=sorted(caught))
    # (b) every raise is a KeyError with a bound name
    for n in walk_local(g.node):
        if not isinstance(n, ast.Raise):
            continue
        key = ctx.key(g, "C15-READER", f"raise:{C.unparse(n.exc, 30) if n.exc else 're-raise'}")
        ok, why = _raise_is_keyerror(g, n)
        if ok:
            r.ok(key, C.loc(g, n), why)
        else:
            r.violation(key, C.loc(g, n), why)
    # (c) (seed C15_10) presence is decided by the entry itself: what a dead writer leaves behind (its
    # temporary sibling) must not make an entry count as present — `hash_query` then reports "not missing",
    # nobody searches, and the lookup fails for that contraction forever
    for mname in ("__contains__",):
        cm = dd.methods.get(mname)
        C.require(cm is not None, f"DiskDict.{mname} not found")
        key = ctx.key(cm, "C15-READER", "presence")
        listing = [n for n in walk_local(cm.node) if isinstance(n, ast.Call) and (
            (isinstance(n.func, ast.Attribute) and n.func.attr in ("glob", "rglob", "iterdir"))
            or dotted(n.func) in ("os.listdir", "os.scandir", "glob.glob", "glob.iglob", "os.walk"))]
        exists = [n for n in walk_local(cm.node) if isinstance(n, ast.Call) and (
            (isinstance(n.func, ast.Attribute) and n.func.attr in ("exists", "is_file"))
            or dotted(n.func) in ("os.path.exists", "os.path.isfile"))]
        sibl = [n for n in exists if _classify_path(ctx, cm, n.func.value if isinstance(n.func, ast.Attribute)
                                                   and n.func.attr in ("exists", "is_file") else (n.args[0] if n.args else None))[0] == "temp"]
        if listing or sibl:
            bad = (listing or sibl)[0]
            r.violation(key, C.loc(cm, bad), f"`{C.unparse(bad, 60)}`: an entry counts as present because of files other than "
                        f"the entry itself; the temporary a writer leaves when it dies before publishing then marks the "
                        f"contraction as cached for every later run although no record can be read")
        elif exists:
            r.ok(key, C.loc(cm, exists[0]), "present iff in the memory layer or the entry file exists")
        else:
            raise AnalysisError("DiskDict.__contains__: presence test not recognised")
    return r


def _raise_is_keyerror(func, rz):
    parents = func.module.parents
    if rz.exc is None:
        # bare re-raise: must be inside a handler for KeyError
        h = _enclosing_handler(func, rz)
        if h is not None and _handler_types(h) <= {"KeyError"}:
            return True, "re-raises the KeyError being handled"
        return False, "bare raise outside a KeyError handler"
    e = rz.exc
    if isinstance(e, ast.Call) and (dotted(e.func) or "").split(".")[-1] == "KeyError":
        return True, "raises KeyError"
    if isinstance(e, ast.Name):
        # must be bound by an *enclosing* ``except KeyError as e`` — and not
        # shadowed (and thereby unbound on exit) by a nested ``except ... as e``
        cur = parents.get(rz)
        binder = None
        while cur is not None and cur is not func.node:
            if isinstance(cur, ast.ExceptHandler) and cur.name == e.id:
                binder = cur
                break
            cur = parents.get(cur)
        if binder is None:
            return False, f"raises '{e.id}', which is not bound by an enclosing handler"
        if not _handler_types(binder) <= {"KeyError"}:
            return False, f"re-raises a {sorted(_handler_types(binder))}, not a KeyError"
        # shadowing: a nested handler binding the same name before this raise
        for sub in ast.walk(binder):
            if isinstance(sub, ast.ExceptHandler) and sub is not binder and sub.name == e.id:
                if sub.lineno < rz.lineno and not _contains(sub, rz):
                    return False, (f"'{e.id}' is unbound here: a nested 'except ... as {e.id}' "
                                   "deleted the name on exit (UnboundLocalError)")
        return True, "re-raises the original KeyError"
    return False, f"raises {C.unparse(e, 40)}, not KeyError"


def _contains(outer, node):
    return any(x is node for x in ast.walk(outer))


def _enclosing_handler(func, node):
    parents = func.module.parents
    cur = parents.get(node)
    while cur is not None and cur is not func.node:
        if isinstance(cur, ast.ExceptHandler):
            return cur
        cur = parents.get(cur)
    return None


def _handler_types(h):
    if h.type is None:
        return {"*"}
    ts = h.type.elts if isinstance(h.type, ast.Tuple) else [h.type]
    return {(dotted(t) or "?").split(".")[-1] for t in ts}


def rule_dirs(ctx):
    r = RuleResult("C15-DIRS", "directory creation is idempotent and precedes the write", 2)
    dd = ctx.p.cls(C.UTILS, "DiskDict")
    for f in dd.methods.values():
        fl = None
        for call in walk_local(f.node):
            if not isinstance(call, ast.Call):
                continue
            d = dotted(call.func)
            is_mk = (isinstance(call.func, ast.Attribute) and call.func.attr == "mkdir") or \
                d in ("os.makedirs", "os.mkdir")
            if not is_mk:
                continue
            key = ctx.key(f, "C15-DIRS", C.unparse(call.func, 40))
            eo = [k for k in call.keywords if k.arg == "exist_ok"]
            if d == "os.mkdir" or not eo or not (isinstance(eo[0].value, ast.Constant)
                                                  and eo[0].value.value is True):
                r.violation(key, C.loc(f, call), "directory creation without exist_ok=True: a "
                            "second process (or a retry after a crash) fails on the existing "
                            "directory")
                continue
            fl = fl or ctx.flow(f)
            cn = fl.cfg.containing(call, f.module.parents)
            opens = [n.id for n, c2 in fl.calls() if _is_write_open(c2)]
            # the mkdir must not come after the write
            late = [o for o in opens if o not in fl.cfg.reachable_from_succs(cn.id)]
            if late:
                r.violation(key, C.loc(f, call), "directory is created after the file is opened")
            else:
                r.ok(key, C.loc(f, call), "idempotent and before the write")
    return r


RULES = [rule_atomic, rule_keep, rule_promote, rule_reader, rule_dirs]
