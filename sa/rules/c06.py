"""C06 — slices partition the contraction exactly (narrow bookkeeping clauses)."""

from __future__ import annotations

import ast

from ..engine.program import AnalysisError, dotted, walk_local
from ..engine.report import RuleResult
from . import common as C
from .c02 import tree_class, tree_funcs

PID = "C06"
EXPLANATION = (
    "Bookkeeping clauses the slice arithmetic relies on, decided on the ast: (ORDER) "
    "gen_output_chunks/nchunks/slice_key assume sliced output indices come first in "
    "the ordered sliced_inds table; every writer of that table must therefore rebuild "
    "it from sorted(SliceInfo...) (or only remove entries), and SliceInfo must be an "
    "order=True dataclass whose first field is `inner`; (PAIR) slice_arrays slices "
    "exactly the inputs in sliced_inputs, so remove_ind must add an input exactly when "
    "the removed index is on it (and invalidate that leaf), restore_ind may drop it "
    "only when no other sliced index remains on the term, and nobody else writes it; "
    "(MULT) the factor remove_ind multiplies into the slice count is the size it "
    "records in SliceInfo, and restore_ind divides by that recorded size. The "
    "stride/stack arithmetic is runtime and not decided. "
    "Later rounds added: "
    "(COVER) every enumeration of slice numbers covers 0..nslices-1 exactly once (partial "
    "evaluation); (FRESHCHUNK) every yielded chunk owns its storage; (RADIX) strides are "
    "products of the later recorded sizes, digits are floor-division with the remainder "
    "carried, projected indices consume no digit. "
    'Round 7: (NOMUTATE) the adder and the gatherer never write in place into a value that may alias the per-slice results they are handed (assumption: an augmented assignment on a name unpacked from a tuple parameter counts as such a write). '
    'Round 8 (engine E9): (KEYEVAL) the slice-number decoding is evaluated for every slice number of every bounded table and is a bijection onto the value combinations. '
)
ASSUMPTIONS = ("dict preserves insertion order; dataclass(order=True) compares fields in "
               "declaration order",)


def rule_order(ctx):
    r = RuleResult("C06-ORDER", "sliced_inds keeps output indices first", 4)
    tc = tree_class(ctx)
    m = ctx.p.module(C.CORE)
    si = m.classes.get("SliceInfo")
    C.require(si is not None, "SliceInfo not found")
    key = f"{C.CORE}::SliceInfo::C06-ORDER"
    deco_ok = False
    for d in si.node.decorator_list:
        if isinstance(d, ast.Call) and (dotted(d.func) or "").endswith("dataclass"):
            for k in d.keywords:
                if k.arg == "order" and isinstance(k.value, ast.Constant) and k.value.value is True:
                    deco_ok = True
    fields = [s.target.id for s in si.node.body if isinstance(s, ast.AnnAssign)
              and isinstance(s.target, ast.Name)]
    if deco_ok and fields and fields[0] == "inner":
        r.ok(key, C.loc(m, si.node), "order=True dataclass, first field `inner` "
             "(False = output sorts first)", fields=fields)
    else:
        r.violation(key, C.loc(m, si.node), "SliceInfo ordering no longer puts output indices "
                    "first (needs order=True and `inner` as first field)", fields=fields)
    for f in tree_funcs(ctx, ctx.tier == "thorough"):
        if f.cls is not None and f.cls.module.path != C.CORE:
            # ContractionTreeMulti.sliced_inds is a different type (variable indices)
            continue
        d = ctx.effects.direct(f)
        for a in d["access"]:
            if a.attr != "sliced_inds" or a.kind == "read":
                continue
            k = ctx.key(f, "C06-ORDER", a.kind)
            node = a.node
            if a.kind == "write":
                st = C.enclosing_stmt(f, node)
                val = st.value if isinstance(st, ast.Assign) else None
                if val is None and isinstance(node, ast.Call):  # setattr(...)
                    r.ok(k, a.loc, "whole-state transfer")
                    continue
                txt = C.unparse(val, 200) if val is not None else ""
                if isinstance(val, ast.Dict) and not val.keys:
                    r.ok(k, a.loc, "empty table")
                elif isinstance(val, ast.DictComp) and isinstance(val.generators[0].iter, ast.Call) \
                        and dotted(val.generators[0].iter.func) == "sorted":
                    r.ok(k, a.loc, "rebuilt from sorted(SliceInfo...)")
                elif isinstance(val, ast.Call) and isinstance(val.func, ast.Attribute) and \
                        val.func.attr == "copy":
                    r.ok(k, a.loc, "copy of an ordered table")
                else:
                    r.violation(k, a.loc, "sliced_inds is rebound to a value that is not a "
                                "sorted rebuild: sliced output indices may no longer come first",
                                value=txt)
            else:
                # in-place mutation: only removals keep the order invariant
                call = node if isinstance(node, ast.Call) else None
                if call is not None and isinstance(call.func, ast.Attribute) and \
                        call.func.attr in ("pop", "clear", "popitem"):
                    r.ok(k, a.loc, "removal keeps the order")
                elif isinstance(node, ast.Subscript) and isinstance(node.ctx, ast.Del):
                    r.ok(k, a.loc, "removal keeps the order")
                else:
                    r.violation(k, a.loc, "entry inserted into sliced_inds in place: the new "
                                "index lands last even if it is an output index",
                                stmt=C.unparse(C.enclosing_stmt(f, node)))
    # set_state_from transfers sliced_inds via the copy tuple
    return r


def rule_pair(ctx):
    r = RuleResult("C06-PAIR", "sliced_inputs follows the sliced indices", 3)
    tc = tree_class(ctx)
    allowed = {"__init__", "set_state_from", "remove_ind", "restore_ind"}
    seen = set()
    for f in tree_funcs(ctx, ctx.tier == "thorough"):
        d = ctx.effects.direct(f)
        for a in d["access"]:
            if a.attr != "sliced_inputs" or a.kind == "read":
                continue
            k = ctx.key(f, "C06-PAIR", a.kind)
            if f.name not in allowed:
                r.violation(k, a.loc, "sliced_inputs written outside remove_ind/restore_ind")
                continue
            seen.add(f.name)
            if f.name in ("__init__", "set_state_from"):
                r.ok(k, a.loc, "whole-state")
                continue
            st = C.enclosing_stmt(f, a.node)
            guards = [(C.unparse(i.test), t) for i, t in C.enclosing_ifs(f, st)]
            if f.name == "remove_ind":
                on_term = any(g.startswith("ind in ") and t for g, t in guards)
                union = isinstance(st, ast.Assign) and isinstance(st.value, ast.BinOp) and \
                    isinstance(st.value.op, ast.BitOr)
                # the same block invalidates the leaf
                par = f.module.parents.get(st)
                blk = getattr(par, "body", [])
                inval = any("_remove_node" in ast.unparse(s) for s in blk)
                if on_term and union and inval:
                    r.ok(k, a.loc, "input added iff the removed index is on it; leaf invalidated")
                else:
                    r.violation(k, a.loc, "sliced_inputs update is not tied to `ind in term` "
                                "together with the leaf invalidation",
                                guards=[g for g, _ in guards])
            else:
                no_other = any("not in tree.sliced_inds" in g and g.startswith("all(") and t
                               for g, t in guards) or \
                    any("not in self.sliced_inds" in g and g.startswith("all(") and t
                        for g, t in guards)
                diff = isinstance(st, ast.Assign) and isinstance(st.value, ast.BinOp) and \
                    isinstance(st.value.op, ast.Sub)
                if no_other and diff:
                    r.ok(k, a.loc, "input dropped only when no other sliced index is on the term")
                else:
                    r.violation(k, a.loc, "input is dropped from sliced_inputs although another "
                                "sliced index may still be on it", guards=[g for g, _ in guards])
    if "remove_ind" not in seen:
        ri = tc.lookup("remove_ind")
        r.violation(ctx.key(ri, "C06-PAIR", "missing"), ri.loc,
                    "remove_ind no longer records which inputs carry a sliced index")
    return r


def rule_multpair(ctx):
    r = RuleResult("C06-MULT", "slice count factor is the recorded SliceInfo size", 2)
    tc = tree_class(ctx)
    ri, rs = tc.lookup("remove_ind"), tc.lookup("restore_ind")
    C.require(ri is not None and rs is not None, "remove_ind/restore_ind not found")
    # remove_ind: in the branch that multiplies multiplicity by X, SliceInfo(..., X, None)
    key = ctx.key(ri, "C06-MULT")
    ok = False
    why = "no `multiplicity = multiplicity * d` with SliceInfo(.., d, None) in one branch"
    for n in walk_local(ri.node):
        if isinstance(n, ast.If):
            for branch in (n.body, n.orelse):
                mult = None
                size_arg = None
                for st in branch:
                    if isinstance(st, (ast.Assign, ast.AugAssign)):
                        tgt = st.targets[0] if isinstance(st, ast.Assign) else st.target
                        if isinstance(tgt, ast.Attribute) and tgt.attr == "multiplicity":
                            v = st.value
                            if isinstance(st, ast.AugAssign) and isinstance(st.op, ast.Mult):
                                mult = C.unparse(v)
                            elif isinstance(v, ast.BinOp) and isinstance(v.op, ast.Mult):
                                names = [C.unparse(v.left), C.unparse(v.right)]
                                other = [x for x in names if not x.endswith(".multiplicity")]
                                mult = other[0] if len(other) == 1 else None
                        if isinstance(st, ast.Assign) and isinstance(st.value, ast.Call) and \
                                dotted(st.value.func) == "SliceInfo" and len(st.value.args) >= 3:
                            size_arg = C.unparse(st.value.args[2])
                if mult is not None:
                    if size_arg == mult:
                        ok = True
                    else:
                        why = f"multiplies by {mult} but records size {size_arg}"
                elif size_arg is not None and size_arg != "1":
                    why = f"branch records size {size_arg} without multiplying the slice count"
                    ok = False
    if ok:
        r.ok(key, ri.loc, "slice count multiplied by the size recorded in SliceInfo; "
             "projection records 1 and does not multiply")
    else:
        r.violation(key, ri.loc, why)
    # restore_ind: divides by the popped SliceInfo's size
    key = ctx.key(rs, "C06-MULT")
    fl = ctx.flow(rs)
    found = None
    for n in walk_local(rs.node):
        if isinstance(n, ast.AugAssign) and isinstance(n.target, ast.Attribute) and \
                n.target.attr == "multiplicity":
            found = (n, n.value, isinstance(n.op, ast.FloorDiv))
        elif isinstance(n, ast.Assign) and isinstance(n.targets[0], ast.Attribute) and \
                n.targets[0].attr == "multiplicity" and isinstance(n.value, ast.BinOp):
            found = (n, n.value.right, isinstance(n.value.op, ast.FloorDiv))
    recomputed = None
    for n in walk_local(rs.node):
        if isinstance(n, ast.Assign) and isinstance(n.targets[0], ast.Attribute) and \
                n.targets[0].attr == "multiplicity" and isinstance(n.value, ast.Call) and \
                (dotted(n.value.func) or "").split(".")[-1] == "prod" and n.value.args and \
                isinstance(n.value.args[0], (ast.GeneratorExp, ast.ListComp)):
            recomputed = n
    if found is None and recomputed is not None:
        # recomputation from the table: right iff the factors are the *recorded* sizes
        g = recomputed.value.args[0]
        it = g.generators[0]
        over_values = isinstance(it.iter, ast.Call) and isinstance(it.iter.func, ast.Attribute) \
            and it.iter.func.attr == "values" and "sliced_inds" in C.unparse(it.iter.func.value)
        elt_size = isinstance(g.elt, ast.Attribute) and g.elt.attr == "size" and \
            isinstance(g.elt.value, ast.Name) and isinstance(it.target, ast.Name) and \
            g.elt.value.id == it.target.id
        if over_values and elt_size:
            r.ok(key, C.loc(rs, recomputed), "slice count recomputed as the product of the recorded sizes")
        else:
            r.violation(key, C.loc(rs, recomputed), "restore_ind recomputes the slice count from "
                        f"`{C.unparse(g.elt)}` over `{C.unparse(it.iter, 50)}`, not from the sizes "
                        "recorded in SliceInfo (a projected index recorded 1, its dimension is larger)")
    elif found is None:
        r.violation(key, rs.loc, "restore_ind does not restore the slice count")
    else:
        st, div, is_floordiv = found
        deps = fl.deps(div, fl.node_of_expr(st))
        from_popped = any(d[0] == "call" and d[1].endswith("sliced_inds.pop") for d in deps)
        is_size = isinstance(div, ast.Attribute) and div.attr == "size"
        if from_popped and is_size and is_floordiv:
            r.ok(key, C.loc(rs, st), "divides by the size recorded when the index was removed")
        else:
            r.violation(key, C.loc(rs, st), "restore_ind divides the slice count by "
                        f"`{C.unparse(div)}`, not by the size recorded in the removed "
                        "SliceInfo (a projected index recorded 1)")
    return r


def rule_apply(ctx):
    r = RuleResult("C06-APPLY", "slice_arrays / slice_key consume the table as written", 3)
    tc = tree_class(ctx)
    sa = tc.lookup("slice_arrays")
    C.require(sa is not None, "slice_arrays not found")
    key = ctx.key(sa, "C06-APPLY")
    loops = [n for n in walk_local(sa.node) if isinstance(n, ast.For)]
    ok = any(C.unparse(l.iter) == "self.sliced_inputs" for l in loops)
    if ok:
        r.ok(key, sa.loc, "slices exactly the inputs listed in sliced_inputs")
    else:
        r.violation(key, sa.loc, "slice_arrays does not iterate self.sliced_inputs")
    # the selector fixes *every* axis that carries a sliced index: it is built per axis
    # of the term; positions looked up with ``term.index(ix)`` find only the first axis
    # of a repeated (diagonal / trace) index
    key = ctx.key(sa, "C06-APPLY", "selector")
    idx_calls = [n for n in walk_local(sa.node) if isinstance(n, ast.Call)
                 and isinstance(n.func, ast.Attribute) and n.func.attr in ("index", "find")]
    per_axis = [n for n in walk_local(sa.node) if isinstance(n, (ast.GeneratorExp, ast.ListComp))
                and any("inputs" in C.unparse(g.iter) or "term" in C.unparse(g.iter) for g in n.generators)
                and any(isinstance(x, ast.Call) and isinstance(x.func, ast.Attribute) and x.func.attr == "get"
                        or isinstance(x, ast.Subscript) for x in ast.walk(n.elt))]
    if idx_calls:
        r.violation(key, C.loc(sa, idx_calls[0]), f"`{C.unparse(idx_calls[0])}` locates a sliced index by its "
                    "first position in the term: an index repeated on one tensor keeps its other axes, "
                    "while the tree's leaf legs assume every occurrence is gone")
    elif per_axis:
        r.ok(key, C.loc(sa, per_axis[0]), "one selector entry per axis of the term")
    else:
        r.exempt(key, sa.loc, "selector construction not of a recognised form: not decided")
    sk = tc.lookup("slice_key")
    C.require(sk is not None, "slice_key not found")
    key = ctx.key(sk, "C06-APPLY")
    walks = [n for n in walk_local(sk.node) if isinstance(n, (ast.For, ast.comprehension))
             and "self.sliced_inds" in ast.unparse(n.iter)
             and not any(isinstance(x, ast.Call) and dotted(x.func) in ("sorted", "set", "reversed")
                         for x in ast.walk(n.iter))]
    strides = [n for n in walk_local(sk.node) if isinstance(n, ast.Call)
               and dotted(n.func) == "get_slice_strides"
               and n.args and C.unparse(n.args[0]) == "self.sliced_inds"]
    # strides are positional (entry k belongs to entry k of the table): whatever is zipped
    # with them must be the whole table, not a filtered view of it
    la_sk = ctx.r.local_assignments(sk)
    misaligned = None
    for z in [n for n in walk_local(sk.node) if isinstance(n, ast.Call) and dotted(n.func) == "zip"
              and len(n.args) == 2]:
        args = list(z.args)
        if not any(isinstance(a, ast.Name) and a.id == "strides" for a in args):
            continue
        other = [a for a in args if not (isinstance(a, ast.Name) and a.id == "strides")][0]
        for _ in range(3):
            if isinstance(other, ast.Name) and len(la_sk.get(other.id, [])) == 1:
                other = la_sk[other.id][0]
        whole = C.unparse(other) in ("self.sliced_inds", "self.sliced_inds.items()",
                                     "self.sliced_inds.values()", "self.sliced_inds.keys()")
        if not whole:
            misaligned = (z, other)
    if misaligned is not None:
        r.violation(key, C.loc(sk, misaligned[0]), f"the strides (one per entry of the table) are zipped with "
                    f"`{C.unparse(misaligned[1], 70)}`, not with the whole table: as soon as an entry is "
                    "skipped (a projected index) every later index is decoded with its neighbour's stride")
    elif walks and strides:
        r.ok(key, sk.loc, "key digits follow the order of the sliced_inds table, with strides "
             "of the same table")
    else:
        r.violation(key, sk.loc, "slice_key no longer walks sliced_inds in table order with "
                    "strides computed from the same table")
    return r


def rule_chunkkey(ctx):
    """A lazily generated output chunk is labelled with the key of a slice that went
    into it: the slice number handed to ``slice_key`` is one of the numbers handed to
    ``contract_slice`` for the same chunk (all of them share the output digits)."""
    r = RuleResult("C06-CHUNKKEY", "output chunks are labelled with the key of their own slices", 1)
    tc = tree_class(ctx)
    f = tc.lookup("gen_output_chunks")
    C.require(f is not None, "gen_output_chunks not found")
    la = ctx.r.local_assignments(f)

    def norm(e, depth=0):
        if isinstance(e, ast.Name) and depth < 4:
            defs = la.get(e.id, [])
            if len(defs) == 1:
                return norm(defs[0], depth + 1)
        return C.unparse(e)

    keyed = [n for n in walk_local(f.node) if isinstance(n, ast.Call)
             and isinstance(n.func, ast.Attribute) and n.func.attr == "slice_key" and n.args]
    contracted = {norm(n.args[1]) for n in walk_local(f.node) if isinstance(n, ast.Call)
                  and isinstance(n.func, ast.Attribute) and n.func.attr == "contract_slice"
                  and len(n.args) >= 2}
    C.require(keyed and contracted, "gen_output_chunks: slice_key / contract_slice calls not recognised")
    for k in keyed:
        key = ctx.key(f, "C06-CHUNKKEY")
        if norm(k.args[0]) in contracted:
            r.ok(key, C.loc(f, k), f"key of slice `{norm(k.args[0])}`, which is contracted into the chunk")
        else:
            r.violation(key, C.loc(f, k), f"the chunk is labelled with slice_key({norm(k.args[0])}) but "
                        f"built from slices {sorted(contracted)}: keys repeat or skip, so the chunks "
                        "no longer tile the output exactly once")
    return r


def rule_combine(ctx):
    """Shared with C19-RESCALE / C19-COMBINE: per-slice results are combined by the
    exponent-aware adder and stacked at a common exponent."""
    from .c19 import rule_rescale, rule_combine as comb

    r = C.reuse_rule(ctx, rule_rescale, "C19-RESCALE", "C06-COMBINE",
                     "per-slice results are summed / stacked consistently (also with stripped "
                     "exponents)", lambda i: True, 2)
    for i in comb(ctx).instances:
        c = i.construct.replace("C19-COMBINE", "C06-COMBINE")
        if i.verdict == "violation":
            r.violation(c, i.loc, i.reason, **i.detail)
        elif i.verdict == "exempt":
            r.exempt(c, i.loc, i.reason)
        else:
            r.ok(c, i.loc, i.reason)
    return r


def rule_copy(ctx):
    """Shared with C04-COPY (the sliced-index table and the sliced inputs only): a tree
    and its copy must not share the table, or un-slicing one changes the slice
    numbering of the other."""
    from .c04 import rule_copy as src

    return C.reuse_rule(ctx, src, "C04-COPY", "C06-COPY",
                        "the sliced-index table is not shared between a tree and its copy",
                        lambda i: i.construct.endswith(("::sliced_inds", "::sliced_inputs")), 2)


# ------------------------------------------------------------------ COVER / FRESHCHUNK

class _Unknown(Exception):
    pass


def _pe(e, env):
    """partial evaluation of integer expressions; attribute reads are looked up by dotted name"""
    if isinstance(e, ast.Constant) and isinstance(e.value, int):
        return e.value
    d = dotted(e)
    if d is not None:
        if d in env:
            return env[d]
        raise _Unknown(d)
    if isinstance(e, ast.UnaryOp) and isinstance(e.op, ast.USub):
        return -_pe(e.operand, env)
    if isinstance(e, ast.BinOp):
        a, b = _pe(e.left, env), _pe(e.right, env)
        ops = {ast.Add: lambda: a + b, ast.Sub: lambda: a - b, ast.Mult: lambda: a * b,
               ast.FloorDiv: lambda: a // b, ast.Mod: lambda: a % b}
        if type(e.op) in ops:
            return ops[type(e.op)]()
    if isinstance(e, ast.Call) and dotted(e.func) in ("min", "max") and not e.keywords:
        vals = [_pe(a, env) for a in e.args]
        return min(vals) if dotted(e.func) == "min" else max(vals)
    raise _Unknown(C.unparse(e, 40))


def _range_of(e, env, f):
    """values of an iterable expression: range(...), tqdm.trange(...), or a name bound to one"""
    if isinstance(e, ast.Call) and (dotted(e.func) or "").split(".")[-1] in ("range", "trange"):
        return list(range(*[_pe(a, env) for a in e.args]))
    if isinstance(e, ast.Name):
        defs = [n.value for n in walk_local(f.node) if isinstance(n, ast.Assign) and dotted(n.targets[0]) == e.id]
        vals = []
        for d in defs:
            try:
                vals.append(_range_of(d, env, f))
            except _Unknown:
                pass
        if vals and all(v == vals[0] for v in vals):
            return vals[0]
    raise _Unknown(C.unparse(e, 40))


def _slice_numbers(f, call, env):
    """all values of the slice-number argument of ``call`` under ``env`` (loops enumerated)"""
    parents = f.module.parents
    arg = call.args[1] if len(call.args) > 1 else None
    if arg is None:
        raise _Unknown("slice number not positional")
    loops = []
    cur = parents.get(call)
    while cur is not None and cur is not f.node:
        if isinstance(cur, ast.For):
            loops.append((cur.target, cur.iter, cur))
        elif isinstance(cur, (ast.GeneratorExp, ast.ListComp)):
            for g in reversed(cur.generators):
                loops.append((g.target, g.iter, None))
        cur = parents.get(cur)
    loops.reverse()
    # straight-line integer assignments before the outermost loop (e.g. nblock, start)
    env = dict(env)
    for st in f.node.body:
        if isinstance(st, ast.Assign) and len(st.targets) == 1 and isinstance(st.targets[0], ast.Name):
            try:
                env[st.targets[0].id] = _pe(st.value, env)
            except _Unknown:
                # a quantity computed from runtime data (the inner block size): a free symbol, sampled
                if isinstance(st.value, ast.Call) and "stepsize" in env:
                    env[st.targets[0].id] = env["stepsize"]
    out = []

    def rec(i, env):
        if i == len(loops):
            # local definition of the argument inside the innermost loop body
            e2 = dict(env)
            if isinstance(arg, ast.Name) and arg.id not in e2:
                for lp in reversed([l for _, _, l in loops if l is not None]):
                    for st in lp.body:
                        if isinstance(st, ast.Assign) and dotted(st.targets[0]) == arg.id:
                            e2[arg.id] = _pe(st.value, e2)
                            break
                    if arg.id in e2:
                        break
            out.append(_pe(arg, e2))
            return
        tgt, it, _ = loops[i]
        if not isinstance(tgt, ast.Name):
            raise _Unknown("loop target")
        for v in _range_of(it, env, f):
            e2 = dict(env)
            e2[tgt.id] = v
            rec(i + 1, e2)

    rec(0, env)
    return out


def rule_cover(ctx):
    """'The slice numbers 0..nslices-1 correspond one-to-one to the combinations of sliced values':
    whoever enumerates slice numbers for contract_slice enumerates each of 0..nslices-1 exactly once
    (over all workers, for the MPI variant).  The loop bounds are partially evaluated."""
    r = RuleResult("C06-COVER", "every slice number is contracted exactly once", 3)
    tc = tree_class(ctx)
    for f in tc.methods.values():
        calls = [n for n in walk_local(f.node) if isinstance(n, ast.Call) and isinstance(n.func, ast.Attribute)
                 and n.func.attr == "contract_slice" and dotted(n.func.value) == "self"]
        if not calls or f.name in ("contract_slice",):
            continue
        k = ctx.key(f, "C06-COVER")
        txt = C.unparse(f.node, 100000)
        combines = any(t in txt for t in ("gather_slices", "add_maybe_exponent_stripped", "Reduce", "Allreduce"))
        if not combines:
            r.exempt(k, C.loc(f, calls[0]), "does not combine per-slice results (timing / inspection only)")
            continue
        free = set()
        bad = None
        samples = [(4, 1), (4, 2), (6, 4), (7, 3), (12, 5), (5, 5)]
        try:
            for n, s in samples:
                steps = [d for d in range(1, n + 1) if n % d == 0]
                for step in steps:
                    per_rank = []
                    uses_rank = "comm.rank" in C.unparse(f.node, 100000)
                    for rk in (range(s) if uses_rank else [0]):
                        env = {"self.multiplicity": n, "self.nslices": n, "comm.rank": rk, "comm.size": s,
                               "stepsize": step}
                        vals = []
                        for c in calls:
                            vals.extend(_slice_numbers(f, c, env))
                        per_rank.append(vals)
                    allv = sorted(v for vs in per_rank for v in vs)
                    if allv != list(range(n)) and bad is None:
                        missing = sorted(set(range(n)) - set(allv))
                        dup = sorted({v for v in allv if allv.count(v) > 1})
                        bad = (n, s if uses_rank else None, step, missing, dup)
                    if "//" not in txt:
                        break
        except _Unknown as e:
            raise AnalysisError(f"{f.qual}: cannot enumerate the slice numbers handed to contract_slice ({e})")
        if bad:
            n, s, step, missing, dup = bad
            who = f" on {s} processes" if s else ""
            r.violation(k, C.loc(f, calls[0]), f"with {n} slices{who} (inner block {step}) the slice numbers "
                        f"contracted miss {missing} and repeat {dup}: the combined result is not the sum/stack "
                        f"over all combinations of sliced values")
        else:
            r.ok(k, C.loc(f, calls[0]), f"{len(calls)} call site(s) enumerate 0..nslices-1 exactly once "
                 f"(partially evaluated for {len(samples)} sizes)")
    return r


def rule_freshchunk(ctx):
    """Lazily generated output chunks 'tile the output exactly once' only if every yielded chunk is
    its own array: a buffer that lives across iterations of the chunk loop (``out=acc``) makes all
    chunks a consumer keeps alias the last one (seed C06_9)."""
    r = RuleResult("C06-FRESHCHUNK", "every yielded chunk owns its storage", 1)
    tc = tree_class(ctx)
    f = tc.lookup("gen_output_chunks")
    C.require(f is not None, "gen_output_chunks not found")
    fl = ctx.flow(f)
    k = ctx.key(f, "C06-FRESHCHUNK")
    yields = [n for n in walk_local(f.node) if isinstance(n, ast.Yield)]
    C.require(yields, "gen_output_chunks: no yield")
    loops = C.enclosing_loops(f, C.enclosing_stmt(f, yields[0]))
    C.require(loops, "gen_output_chunks: yield outside a loop")
    lp = loops[-1]
    head = fl.cfg.node_of(lp)
    bad = None
    for n in ast.walk(lp):
        if isinstance(n, ast.Call):
            for kw in n.keywords:
                if kw.arg == "out" and isinstance(kw.value, ast.Name):
                    nm = kw.value.id
                    # loop-carried: a definition made inside the loop (or before it) reaches the next iteration
                    defs_in = [d for d in fl.defs_reaching(nm, head.id)]
                    at = fl.cfg.containing(n, f.module.parents)
                    fresh_each = all(
                        any(fl.cfg.nodes[d.node].ast is st or any(fl.cfg.nodes[d.node].ast is y for y in ast.walk(st))
                            for st in lp.body) and not _conditional(f, fl.cfg.nodes[d.node].ast, lp)
                        for d in fl.defs_reaching(nm, at.id))
                    if defs_in and not fresh_each:
                        bad = (n, nm)
        if isinstance(n, ast.AugAssign) and isinstance(n.target, ast.Name):
            nm = n.target.id
            outside = [d for d in fl.defs_reaching(nm, head.id) if d.kind == "assign"
                       and not any(fl.cfg.nodes[d.node].ast is y for y in ast.walk(lp))]
            if outside and any(isinstance(y.value, (ast.Name, ast.Tuple)) and nm in C.unparse(y.value) for y in yields):
                bad = (n, nm)
    if bad:
        r.violation(k, C.loc(f, bad[0]), f"`{C.unparse(bad[0], 60)}` accumulates into `{bad[1]}`, which lives across "
                    f"the chunks of the generator: every chunk a consumer keeps is the same array, overwritten "
                    f"by the next one")
    else:
        r.ok(k, f.loc, "no accumulator outlives one output chunk")
    return r


def _conditional(f, st, lp):
    """st sits under an `if` inside the loop body (e.g. lazy `if acc is None: acc = ...`)"""
    if st is None:
        return True
    for i, _ in C.enclosing_ifs(f, st):
        if any(i is y for y in ast.walk(lp)):
            return True
    return False


def rule_radix(ctx):
    """'Slice numbers 0..nslices-1 correspond one-to-one to the combinations of sliced values' is a mixed-radix
    number system: the stride of a position is the product of the recorded sizes of all later positions
    (`get_slice_strides`), the digit of a position is the slice number floor-divided by its stride and the
    remainder is carried on (`slice_key`); a projected index consumes no digit."""
    r = RuleResult("C06-RADIX", "slice numbers are decoded as a mixed-radix number over the table", 3)
    m = ctx.p.module(C.CORE)
    f = ctx.p.func(C.CORE, "get_slice_strides")
    k = ctx.key(f, "C06-RADIX", "strides")
    probs = []
    loops = [n for n in f.node.body if isinstance(n, ast.For)]
    inits = [n for n in f.node.body if isinstance(n, ast.Assign) and isinstance(n.value, ast.BinOp)
             and isinstance(n.value.op, ast.Mult) and isinstance(n.value.left, ast.List)]
    if not loops or not inits:
        raise AnalysisError("get_slice_strides: initial list / recurrence loop not recognised")
    ones = inits[0].value.left.elts
    if not (len(ones) == 1 and isinstance(ones[0], ast.Constant) and ones[0].value == 1):
        probs.append("the stride list does not start as all ones (the last position has stride 1)")
    lp = loops[0]
    nname = None
    for n in f.node.body:
        if isinstance(n, ast.Assign) and isinstance(n.value, ast.Call) and dotted(n.value.func) == "len":
            nname = n.targets[0].id
    if not (isinstance(lp.iter, ast.Call) and dotted(lp.iter.func) == "range" and nname and isinstance(lp.target, ast.Name)):
        raise AnalysisError("get_slice_strides: loop range not recognised")
    for nn in (1, 2, 3, 5):
        try:
            got = list(range(*[_pe(a, {nname: nn}) for a in lp.iter.args]))
        except _Unknown as e:
            raise AnalysisError(f"get_slice_strides: {e}")
        if got != list(range(nn - 2, -1, -1)):
            probs.append(f"for {nn} sliced indices the recurrence visits positions {got}, expected {list(range(nn - 2, -1, -1))}")
            break
    st = [n for n in lp.body if isinstance(n, ast.Assign) and isinstance(n.targets[0], ast.Subscript)]
    iv = lp.target.id
    if len(st) != 1:
        probs.append("the recurrence is not a single store")
    else:
        tgt, val = st[0].targets[0], st[0].value
        ok_t = C.unparse(tgt.slice) == iv
        ok_v = isinstance(val, ast.BinOp) and isinstance(val.op, ast.Mult)
        if ok_v:
            parts = [C.unparse(val.left).replace(" ", ""), C.unparse(val.right).replace(" ", "")]
            lst = dotted(tgt.value)
            want_a = f"{lst}[{iv}+1]"
            has_next_stride = want_a in parts
            other = [p_ for p_ in parts if p_ != want_a]
            has_next_size = bool(other) and other[0].endswith(f"[{iv}+1].size")
            ok_v = has_next_stride and has_next_size
        if not (ok_t and ok_v):
            probs.append(f"`{C.unparse(st[0], 70)}`: the stride of position i must be stride[i + 1] times the *recorded size* of "
                         f"position i + 1")
    if probs:
        r.violation(k, f.loc, "; ".join(probs))
    else:
        r.ok(k, f.loc, "stride[last] = 1, stride[i] = stride[i + 1] * size[i + 1] for i = n - 2 .. 0")
    tc = tree_class(ctx)
    sk = tc.lookup("slice_key")
    C.require(sk is not None, "slice_key not found")
    loops = [n for n in sk.node.body if isinstance(n, ast.For)]
    C.require(loops, "slice_key: loop over the table not found")
    lp = loops[0]
    num = sk.node.args.args[1].arg
    tg = lp.target
    if not (isinstance(tg, ast.Tuple) and len(tg.elts) == 2 and isinstance(tg.elts[0], ast.Tuple)
            and len(tg.elts[0].elts) == 2 and all(isinstance(x, ast.Name) for x in (*tg.elts[0].elts, tg.elts[1]))):
        # another pairing of table and strides: [C06-APPLY] decides whether it is aligned; digits not decided here
        for d_ in ("digit", "projected"):
            r.exempt(ctx.key(sk, "C06-RADIX", d_), C.loc(sk, lp), "loop over the table is not `(index, info), stride in zip(...)`: "
                     "not decided by this rule (see C06-APPLY)")
        return r
    indn, infon, striden = tg.elts[0].elts[0].id, tg.elts[0].elts[1].id, tg.elts[1].id
    br = [n for n in lp.body if isinstance(n, ast.If) and "project" in C.unparse(n.test)]
    C.require(br, "slice_key: projected / sliced branches not found")
    t = br[0].test
    none_true = isinstance(t, ast.Compare) and isinstance(t.ops[0], ast.Is) and C.unparse(t.comparators[0]) == "None"
    none_false = isinstance(t, ast.Compare) and isinstance(t.ops[0], ast.IsNot) and C.unparse(t.comparators[0]) == "None"
    C.require(none_true or none_false, "slice_key: test of the projection not recognised")
    sliced, projected = (br[0].body, br[0].orelse) if none_true else (br[0].orelse, br[0].body)
    k = ctx.key(sk, "C06-RADIX", "digit")
    probs = []
    digit = rem = None
    for i_, stn in enumerate(sliced):
        if isinstance(stn, ast.Assign) and isinstance(stn.targets[0], ast.Subscript) and C.unparse(stn.targets[0].slice) == indn:
            v = stn.value
            if isinstance(v, ast.BinOp) and isinstance(v.op, ast.FloorDiv) and dotted(v.left) == num and dotted(v.right) == striden:
                digit = i_
            else:
                probs.append(f"the digit is `{C.unparse(v, 40)}`, expected `{num} // {striden}`")
                digit = i_
        if isinstance(stn, ast.AugAssign) and dotted(stn.target) == num:
            if isinstance(stn.op, ast.Mod) and dotted(stn.value) == striden:
                rem = i_
            else:
                probs.append(f"the slice number is carried on as `{C.unparse(stn, 40)}`, expected `{num} %= {striden}`")
                rem = i_
        if isinstance(stn, ast.Assign) and dotted(stn.targets[0]) == num:
            v = stn.value
            if isinstance(v, ast.BinOp) and isinstance(v.op, ast.Mod) and dotted(v.left) == num and dotted(v.right) == striden:
                rem = i_
            else:
                probs.append(f"the slice number is carried on as `{C.unparse(stn, 40)}`")
                rem = i_
        if isinstance(stn, ast.Assign) and isinstance(stn.targets[0], ast.Tuple) and isinstance(stn.value, ast.Call) \
                and dotted(stn.value.func) == "divmod" and [dotted(a) for a in stn.value.args] == [num, striden]:
            digit = rem = i_
    if digit is None:
        probs.append("no digit is recorded for a sliced (not projected) index")
    if rem is None:
        probs.append("the remainder is not carried to the next position: every later digit is computed from the whole number")
    if digit is not None and rem is not None and rem < digit:
        probs.append("the remainder is taken before the digit is read")
    if probs:
        r.violation(k, C.loc(sk, br[0]), "; ".join(probs))
    else:
        r.ok(k, C.loc(sk, br[0]), f"digit = {num} // stride, then {num} %= stride")
    k = ctx.key(sk, "C06-RADIX", "projected")
    probs = []
    val = [stn for stn in projected if isinstance(stn, ast.Assign) and isinstance(stn.targets[0], ast.Subscript)
           and C.unparse(stn.targets[0].slice) == indn]
    if len(val) != 1 or C.unparse(val[0].value) != f"{infon}.project":
        probs.append("a projected index does not get its projected value")
    if any((isinstance(stn, ast.AugAssign) and dotted(stn.target) == num) or
           (isinstance(stn, ast.Assign) and dotted(stn.targets[0]) == num) for stn in projected):
        probs.append("a projected index (recorded size 1) consumes part of the slice number")
    if probs:
        r.violation(k, C.loc(sk, br[0]), "; ".join(probs))
    else:
        r.ok(k, C.loc(sk, br[0]), "a projected index takes its fixed value and consumes no digit")
    # (seed C02_11) the values an index ranges over when the chunks are stacked back (`SliceInfo.sliced_range`) are
    # the values `slice_key` files the chunks under: 0 .. size-1 for a sliced index, the projected value for a
    # projected one (sibling agreement of the two branches)
    si = ctx.p.cls(C.CORE, "SliceInfo")
    sr = si.methods.get("sliced_range") if si is not None else None
    C.require(sr is not None, "SliceInfo.sliced_range not found")
    k = ctx.key(sr, "C06-RADIX", "values")
    rets = [n for n in walk_local(sr.node) if isinstance(n, ast.Return) and n.value is not None]
    sliced_ok = proj_ok = False
    for rt in rets:
        g = C.enclosing_ifs(sr, rt)
        t = g[0][0].test if g else None
        none_branch = None
        if isinstance(t, ast.Compare) and C.unparse(t.left) == "self.project" and C.unparse(t.comparators[0]) == "None":
            is_none = isinstance(t.ops[0], ast.Is)
            none_branch = (g[0][1] == is_none)
        v = rt.value
        if C.unparse(v).replace(" ", "") == "range(self.size)" and none_branch is True:
            sliced_ok = True
        if isinstance(v, (ast.List, ast.Tuple)) and len(v.elts) == 1 and C.unparse(v.elts[0]) == "self.project" and none_branch is False:
            proj_ok = True
    if sliced_ok and proj_ok:
        r.ok(k, sr.loc, "range(size) for a sliced index, [project] for a projected one — the values slice_key uses")
    else:
        r.violation(k, sr.loc, "sliced_range does not yield range(size) for a sliced and exactly the projected value for a projected "
                    "index: gather_slices files chunks under the values slice_key produces and looks them up under the values "
                    "of sliced_range — for an output index projected to k != 0 the chunk is not found (or the wrong one is)")
    return r


def rule_stack(ctx):
    """(seed C06_11) `gather_slices` stacks the summed chunks over the output sliced indices recursively; the axis
    at which index k is stacked is `output_pos[k] - len(loc)`, where `loc` holds one entry per output index
    already consumed (each of them removed one axis from the chunk).  That arithmetic is right only if (a) the
    chunk key has one entry for *every* removed output index — projected ones included — and (b) every
    recursive step extends `loc` by exactly one entry."""
    r = RuleResult("C06-STACK", "chunks are stacked at axes counted over every removed output index", 2)
    tc = tree_class(ctx)
    f = tc.lookup("gather_slices")
    C.require(f is not None, "gather_slices not found")
    la = ctx.r.local_assignments(f)
    pos = [nm for nm, vs in la.items() if any(isinstance(v, ast.DictComp) and "enumerate" in C.unparse(v) for v in vs)]
    C.require(len(pos) == 1, "gather_slices: table of output positions not found")
    pos = pos[0]
    k = ctx.key(f, "C06-STACK", "key")
    keys = [v for nm, vs in la.items() for v in vs if isinstance(v, ast.Call) and dotted(v.func) == "tuple" and v.args
            and isinstance(v.args[0], ast.GeneratorExp) and dotted(v.args[0].generators[0].iter) == pos]
    if len(keys) != 1:
        raise AnalysisError("gather_slices: chunk key (tuple over the output positions) not recognised")
    g = keys[0].args[0].generators[0]
    if g.ifs:
        r.violation(k, C.loc(f, keys[0]), f"the chunk key leaves out the output indices failing `{C.unparse(g.ifs[0], 50)}`: the stacking "
                    f"axis of every later index is computed as position - len(key so far), which then no longer counts all "
                    f"removed axes (a projected output index before another removed output index shifts it by one)")
    else:
        r.ok(k, C.loc(f, keys[0]), "one key entry per removed output index")
    # (seed C02_14) the sum-only shortcut is taken exactly when *no* removed index is an output index — decided by
    # the table of output positions being empty, not by a count of chunks (a projected output index, or a sliced
    # output index of dimension 1, still has to get its axis back)
    k = ctx.key(f, "C06-STACK", "sum-only")
    short = [n for n in walk_local(f.node) if isinstance(n, ast.Return) and isinstance(n.value, ast.Call)
             and (dotted(n.value.func) or "").endswith("reduce") and C.enclosing_ifs(f, n)]
    if not short:
        r.exempt(k, f.loc, "no sum-only shortcut")
    else:
        g = C.enclosing_ifs(f, short[0])[0]
        t = g[0].test
        empty = (isinstance(t, ast.UnaryOp) and isinstance(t.op, ast.Not) and dotted(t.operand) == pos and g[1]) or \
            (C.unparse(t).replace(" ", "") in (f"len({pos})==0", f"{pos}=={{}}") and g[1])
        if empty:
            r.ok(k, C.loc(f, short[0]), f"everything is summed exactly when `{pos}` is empty")
        else:
            r.violation(k, C.loc(f, short[0]), f"the sum-only shortcut is taken under `{C.unparse(t, 50)}`, not under 'no removed index "
                        f"is an output index' (`not {pos}`): a projected output index, or a sliced output index of dimension 1, "
                        f"gives one chunk too — summing then drops its axis and the result loses the declared output shape")
    k = ctx.key(f, "C06-STACK", "recursion")
    nested = [nf for nf in ctx.p.nested_funcs(f) if any(isinstance(x, ast.Constant) and x.value == "stack" for x in ast.walk(nf.node))]
    C.require(len(nested) == 1, "gather_slices: recursive stacking function not found")
    nf = nested[0]
    params = [a.arg for a in nf.node.args.args]
    C.require(len(params) == 2, "gather_slices: recursive stacking function does not take (loc, remaining)")
    locn, remn = params
    rec = [c for c in ast.walk(nf.node) if isinstance(c, ast.Call) and dotted(c.func) == nf.name]
    probs = []
    for c in rec:
        a0 = c.args[0] if c.args else None
        ext = isinstance(a0, ast.BinOp) and isinstance(a0.op, ast.Add) and dotted(a0.left) == locn and \
            isinstance(a0.right, ast.Tuple) and len(a0.right.elts) == 1
        adv = len(c.args) > 1 and C.unparse(c.args[1]).replace(" ", "") == f"{remn}[1:]"
        if adv and not ext:
            probs.append(f"`{C.unparse(c, 60)}` consumes an output index without extending `{locn}` by one entry")
        if ext and not adv:
            probs.append(f"`{C.unparse(c, 60)}` extends `{locn}` without consuming an index")
    ax = [n for n in walk_local(nf.node) if isinstance(n, ast.BinOp) and isinstance(n.op, ast.Sub)
          and C.unparse(n.right).replace(" ", "") == f"len({locn})" and pos in C.unparse(n.left)]
    if not ax:
        probs.append(f"the stacking axis is not `{pos}[index] - len({locn})`")
    if not rec:
        probs.append("no recursive step found")
    if probs:
        r.violation(k, nf.loc, "; ".join(probs))
    else:
        r.ok(k, nf.loc, f"every step consumes one index and extends `{locn}` by one; axis = position - len({locn})")
    return r


def rule_exprkey(ctx):
    """Shared with C13-WHITELIST / C13-KEYINJ (seed C06_12): through the functional interface a sliced or projected
    tree is executed by a *cached* expression; the key must tell two trees apart that differ in which value an
    index is projected on (or in whether it is sliced at all) — only value types with a value-preserving
    preparer may be cached."""
    from .c13 import rule_whitelist, rule_keyinj

    r = C.reuse_rule(ctx, rule_whitelist, "C13-WHITELIST", "C06-EXPRKEY",
                     "cached expressions are keyed by everything that distinguishes slices", lambda i: True, 1)
    for i in rule_keyinj(ctx).instances:
        if "preparer" not in i.construct:
            continue
        c = i.construct.replace("C13-KEYINJ", "C06-EXPRKEY")
        if i.verdict == "violation":
            r.violation(c, i.loc, i.reason, **i.detail)
        else:
            r.ok(c, i.loc, i.reason)
    return r


def rule_nomutate(ctx):
    """(seed C06_14) 'Combining the per-slice results reproduces the unsliced contraction' for every call, also the
    second one on the same results (a retry, a checkpointed gather): the combining code must not write into the
    per-slice values it is handed.  No augmented assignment, `out=` or element store whose target may alias a
    parameter (directly, through an unpacking, an element, `next()` or a loop over it) in the adder and the gatherer."""
    r = RuleResult("C06-NOMUTATE", "combining slices never writes into the per-slice results", 2)
    tc = tree_class(ctx)
    funcs = [ctx.p.func(C.CORE, "add_maybe_exponent_stripped"), tc.lookup("gather_slices")]
    C.require(all(f is not None for f in funcs), "add_maybe_exponent_stripped / gather_slices not found")
    for f in funcs:
        fl = ctx.flow(f)
        params = {a.arg for a in f.node.args.posonlyargs + f.node.args.args + f.node.args.kwonlyargs} - {"self", "backend", "progbar"}

        def alias(e, at, depth=0):
            if depth > 6 or e is None:
                return False
            if isinstance(e, ast.Name):
                for d in fl.defs_reaching(e.id, at):
                    if d.kind == "param":
                        if e.id in params:
                            return True
                    elif d.kind in ("assign", "iter", "for", "with") and d.value is not None and alias(d.value, d.node, depth + 1):
                        return True
                return False
            if isinstance(e, (ast.Subscript, ast.Starred)):
                return alias(e.value, at, depth + 1)
            if isinstance(e, (ast.Tuple, ast.List)):
                return any(alias(x, at, depth + 1) for x in e.elts)
            if isinstance(e, ast.IfExp):
                return alias(e.body, at, depth + 1) or alias(e.orelse, at, depth + 1)
            if isinstance(e, ast.Call) and dotted(e.func) in ("next", "iter", "enumerate", "zip", "reversed", "tuple", "list") and e.args:
                return any(alias(a, at, depth + 1) for a in e.args)
            return False

        bad = []
        for n in fl.cfg.nodes:
            st = n.ast
            if n.kind != "stmt" or st is None:
                continue
            if isinstance(st, ast.AugAssign):
                tgt = st.target
                base = tgt
                while isinstance(base, (ast.Subscript, ast.Attribute)):
                    base = base.value
                if isinstance(base, ast.Name) and alias(base, n.id):
                    bad.append((st, f"`{C.unparse(st)}` updates `{base.id}` in place"))
            elif isinstance(st, ast.Assign):
                for t in st.targets:
                    if isinstance(t, ast.Subscript):
                        base = t.value
                        while isinstance(base, (ast.Subscript, ast.Attribute)):
                            base = base.value
                        if isinstance(base, ast.Name) and alias(base, n.id):
                            bad.append((st, f"`{C.unparse(st, 60)}` stores into `{base.id}`"))
            for c in (x for x in fl._own_exprs(n) for x in walk_local(x) if isinstance(x, ast.Call)):
                for kw in c.keywords:
                    if kw.arg == "out" and alias(kw.value, n.id):
                        bad.append((c, f"`{C.unparse(c, 60)}` writes its result into `{C.unparse(kw.value)}`"))
        k = ctx.key(f, "C06-NOMUTATE")
        if bad:
            r.violation(k, C.loc(f, bad[0][0]), f"{bad[0][1]}, which may be one of the per-slice results the caller passed: the stored slice "
                        "is no longer the contraction for its slice number and combining the same results again gives a different total")
        else:
            r.ok(k, f.loc, "no in-place write on a value that may alias a parameter")
    return r


def rule_keyeval(ctx):
    """(engine E9) 'The slice numbers 0..nslices-1 correspond one-to-one to the combinations of values of the sliced
    indices.'  `get_slice_strides` and `slice_key` are pure functions of the sliced-index table; their source is
    evaluated for **every** slice number of every table with one to three entries — each entry sliced with size 1, 2
    or 3 or projected to a value — and the decoded keys are checked: pairwise distinct, each value in its range, a
    projected index always at its value, together exactly the product of the ranges."""
    import itertools
    import types

    from ..engine.minieval import Mini, NoEval, Raised

    r = RuleResult("C06-KEYEVAL", "slice numbers decode one-to-one onto the value combinations (bounded tables)", 1)
    tc = tree_class(ctx)
    f = tc.lookup("slice_key")
    g = ctx.p.func(C.CORE, "get_slice_strides")
    C.require(f is not None and g is not None, "slice_key / get_slice_strides not found")
    fs = {"get_slice_strides": g.node}
    k = ctx.key(f, "C06-KEYEVAL")
    entries = [("s", 1), ("s", 2), ("s", 3), ("p", 0), ("p", 2)]
    bad = None
    n_tab = n_keys = 0
    try:
        for n in (1, 2, 3):
            for combo in itertools.product(entries, repeat=n):
                table = {}
                ranges = []
                for j, (kind, v) in enumerate(combo):
                    nm = "xyz"[j]
                    if kind == "s":
                        table[nm] = types.SimpleNamespace(inner=True, ind=nm, size=v, project=None)
                        ranges.append(list(range(v)))
                    else:
                        table[nm] = types.SimpleNamespace(inner=True, ind=nm, size=1, project=v)
                        ranges.append([v])
                nsl = 1
                for info in table.values():
                    nsl *= info.size
                me = types.SimpleNamespace(sliced_inds=table)
                n_tab += 1
                keys = []
                try:
                    for i in range(nsl):
                        key = Mini(fs, budget=5000).call(f.node, [me, i])
                        n_keys += 1
                        keys.append(tuple(key.get(nm) for nm in table))
                except Raised as e:
                    bad = bad or (combo, f"raises ({e.text})")
                    continue
                except NoEval:
                    raise
                except Exception as e:
                    bad = bad or (combo, f"raises ({type(e).__name__}: {e})")
                    continue
                want = sorted(itertools.product(*ranges))
                if sorted(keys) != want and bad is None:
                    bad = (combo, f"slice numbers 0..{nsl - 1} decode to {keys}, the value combinations are {want}")
    except NoEval as e:
        raise AnalysisError(f"slice_key: not evaluable by the mini-evaluator ({e})")
    if bad:
        desc = ", ".join(f"{'sliced, size ' + str(v) if kd == 's' else 'projected to ' + str(v)}" for kd, v in bad[0])
        r.violation(k, f.loc, f"for the table [{desc}]: {bad[1]}")
    else:
        r.ok(k, f.loc, f"{n_keys} slice numbers over {n_tab} tables decode one-to-one")
    return r


RULES = [rule_keyeval, rule_nomutate, rule_order, rule_pair, rule_multpair, rule_apply, rule_chunkkey, rule_combine, rule_copy, rule_cover, rule_freshchunk,
         rule_radix, rule_stack, rule_exprkey]
