"""C16 — one optimizer object serves many contractions (structural clauses)."""

from __future__ import annotations

import ast

from ..engine.program import AnalysisError, ClassInfo, Func, dotted, walk_local
from ..engine.report import RuleResult
from ..engine.dataflow import MUTATORS
from . import common as C

PID = "C16"
EXPLANATION = (
    "Structural clauses of optimizer reuse, decided over the resolved call graph: "
    "(THREADKEY) inside the query closure (search/__call__ and what they reach "
    "through self) of the classes offered for reuse — AutoOptimizer family and "
    "ReusableOptimizer family — every write of instance state is a subscript store "
    "keyed by threading.get_ident() or a store into the content-addressed cache "
    "keyed by hash_query; every read of such per-thread state uses a get_ident() key "
    "evaluated in the same function; a plain `self.x = ...` is a violation. Given "
    "that, no interleaving of threads can make one query read another's entry "
    "(schedule quantifier discharged structurally, assuming atomic dict get/set). "
    "(FRESH) carry-over analysis: an optimizer class is result-carrying when an "
    "attribute initialised in __init__ is both written and read by its query closure "
    "and the returned value depends on it (RNG state exempt). A reuse-offering "
    "wrapper and every instance registered as a preset / hyper function may invoke "
    "search/__call__ only on instances that are not result-carrying or that are "
    "constructed inside the same query."
    "Round 7: (CLASSSTATE) no class-level mutable container is mutated through self; (FUTURES, shared with C08) outstanding pool trials belong to one search; (OWNRUN) the exceptional edge out of the sub-optimizer's run counts as 'not searched'. "
    'Round 8: (MEMOFACTORY) no memoised factory hands out a result-carrying optimizer. '
)
ASSUMPTIONS = (
    "single dict get/set operations are atomic in CPython",
    "DiskDict touches only the entry of the given key (checked: __setitem__/__getitem__ "
    "use k and the per-key path only)",
)

QUERY_METHODS = ("search", "__call__")
RNG_ATTRS = {"rng", "_rng", "seed"}


def reuse_classes(ctx):
    out = []
    for path, name in ((C.PRESETS, "AutoOptimizer"), (C.REUSABLE, "ReusableOptimizer")):
        c = ctx.p.cls(path, name)
        out.append(c)
        out += c.all_subclasses()
    return out


def query_closure(ctx, cls):
    """methods of cls (MRO + overrides) reachable from search/__call__ via self.*
    including properties read as self.attr"""
    seen, stack = [], []
    for q in QUERY_METHODS:
        m = cls.lookup(q)
        if m is not None:
            stack.append(m)
    props = _properties(cls)
    while stack:
        f = stack.pop()
        if f in seen:
            continue
        seen.append(f)
        for call, res in ctx.r.calls_in(f):
            fn = call.func
            if isinstance(fn, ast.Attribute) and isinstance(fn.value, ast.Name) and \
                    fn.value.id == "self":
                for c in ctx.r.methods_for({cls}, fn.attr, include_overrides=False):
                    stack.append(c)
        for n in walk_local(f.node):
            if isinstance(n, ast.Attribute) and isinstance(n.value, ast.Name) and \
                    n.value.id == "self" and n.attr in props:
                stack.append(props[n.attr])
    return seen


def _properties(cls):
    out = {}
    for c in reversed(cls.mro()):
        for name, f in c.methods.items():
            if any(dotted(d) == "property" for d in f.decorators):
                out[name] = f
    return out


def _depends_on_ident(ctx, f, expr, at):
    fl = ctx.flow(f)
    deps = fl.deps(expr, at)
    return any(d[0] == "call" and d[1].endswith("get_ident") for d in deps)


def _depends_on_hash_query(ctx, f, expr, at):
    fl = ctx.flow(f)
    deps = fl.deps(expr, at)
    return any(d[0] == "call" and d[1].endswith("hash_query") for d in deps)


def state_writes(ctx, f):
    """(kind, attr, node, key expr or None) for writes to self.* in f"""
    out = []
    for n in walk_local(f.node):
        if isinstance(n, (ast.Assign, ast.AugAssign, ast.AnnAssign)):
            tgts = n.targets if isinstance(n, ast.Assign) else [n.target]
            for t in tgts:
                for tt in (t.elts if isinstance(t, (ast.Tuple, ast.List)) else [t]):
                    if isinstance(tt, ast.Attribute) and isinstance(tt.value, ast.Name) and \
                            tt.value.id == "self":
                        out.append(("plain", tt.attr, n, None))
                    elif isinstance(tt, ast.Subscript) and isinstance(tt.value, ast.Attribute) \
                            and isinstance(tt.value.value, ast.Name) and tt.value.value.id == "self":
                        out.append(("keyed", tt.value.attr, n, tt.slice))
        elif isinstance(n, ast.Call) and isinstance(n.func, ast.Attribute) and \
                n.func.attr in MUTATORS:
            v = n.func.value
            if isinstance(v, ast.Attribute) and isinstance(v.value, ast.Name) and v.value.id == "self":
                keyexpr = n.args[0] if n.func.attr in ("setdefault", "pop") and n.args else None
                out.append(("mutator:" + n.func.attr, v.attr, n, keyexpr))
        elif isinstance(n, ast.Delete):
            for t in n.targets:
                if isinstance(t, ast.Subscript) and isinstance(t.value, ast.Attribute) and \
                        isinstance(t.value.value, ast.Name) and t.value.value.id == "self":
                    out.append(("keyed-del", t.value.attr, n, t.slice))
    return out


def rule_threadkey(ctx):
    r = RuleResult("C16-THREADKEY", "per-query state is thread-keyed or content-addressed", 3)
    done = set()
    thread_attrs = {}
    for cls in reuse_classes(ctx):
        for f in query_closure(ctx, cls):
            if f.key in done:
                continue
            done.add(f.key)
            fl = ctx.flow(f)
            for kind, attr, node, keyexpr in state_writes(ctx, f):
                key = ctx.key(f, "C16-THREADKEY", attr)
                at = fl.node_of_expr(node)
                if keyexpr is not None and _depends_on_ident(ctx, f, keyexpr, at):
                    thread_attrs.setdefault(cls.key, set()).add(attr)
                    r.ok(key, C.loc(f, node), "store keyed by threading.get_ident()")
                elif keyexpr is not None and _depends_on_hash_query(ctx, f, keyexpr, at):
                    r.ok(key, C.loc(f, node), "content-addressed store (key from hash_query)")
                elif kind == "plain":
                    r.violation(key, C.loc(f, node), f"`self.{attr} = ...` inside the query "
                                "closure of a shared optimizer: a concurrent (or later) query "
                                "reads the value another query left there",
                                stmt=C.unparse(node))
                else:
                    r.violation(key, C.loc(f, node), f"self.{attr} is modified inside the query "
                                "closure with a key that is neither the thread id nor the "
                                "contraction fingerprint", stmt=C.unparse(node))
    # reads of thread-keyed state use a get_ident key evaluated in the same function
    for cls in reuse_classes(ctx):
        tattrs = set()
        for c in cls.mro():
            tattrs |= thread_attrs.get(c.key, set())
        for c in reuse_classes(ctx):
            if cls.is_subclass_of(c) or c.is_subclass_of(cls):
                tattrs |= thread_attrs.get(c.key, set())
        for f in query_closure(ctx, cls):
            fl = ctx.flow(f)
            for n in walk_local(f.node):
                keyexpr = None
                if isinstance(n, ast.Subscript) and isinstance(n.ctx, ast.Load) and \
                        isinstance(n.value, ast.Attribute) and C.unparse(n.value.value) == "self" \
                        and n.value.attr in tattrs:
                    keyexpr = n.slice
                elif isinstance(n, ast.Call) and isinstance(n.func, ast.Attribute) and \
                        n.func.attr == "get" and isinstance(n.func.value, ast.Attribute) and \
                        C.unparse(n.func.value.value) == "self" and n.func.value.attr in tattrs \
                        and n.args:
                    keyexpr = n.args[0]
                if keyexpr is None:
                    continue
                key = ctx.key(f, "C16-THREADKEY", f"read:{C.unparse(n, 40)}")
                if key in {i.construct for i in r.instances}:
                    continue
                at = fl.node_of_expr(n)
                if _depends_on_ident(ctx, f, keyexpr, at):
                    r.ok(key, C.loc(f, n), "read keyed by threading.get_ident()")
                else:
                    r.violation(key, C.loc(f, n), "per-thread state is read with a key that is "
                                "not this thread's id")
    # DiskDict is a content-addressed store: item methods touch only the given key
    dd = ctx.p.cls(C.UTILS, "DiskDict")
    for name in ("__setitem__", "__getitem__", "__contains__"):
        f = dd.methods.get(name)
        C.require(f is not None, f"DiskDict.{name} not found")
        key = ctx.key(f, "C16-THREADKEY", "per-key")
        bad = None
        for kind, attr, node, keyexpr in state_writes(ctx, f):
            if kind == "plain" or keyexpr is None or "k" not in {
                    x.id for x in ast.walk(keyexpr) if isinstance(x, ast.Name)}:
                bad = node
        if bad is None:
            r.ok(key, f.loc, "touches only the entry of the given key")
        else:
            r.violation(key, C.loc(f, bad), "DiskDict item access modifies shared state not "
                        "selected by the key")
    return r


# ---- FRESH -----------------------------------------------------------------


def optimizer_classes(ctx):
    out = []
    for c in ctx.p.classes.values():
        if any(c.lookup(q) is not None for q in QUERY_METHODS) and (
                c.name.endswith("Optimizer") or c.name.endswith("Optimize")):
            out.append(c)
    return out


def _threadkeyed_attrs(ctx, cls):
    """attrs of cls whose every write in the query closure is thread-/content-keyed"""
    ok, bad = set(), set()
    for f in query_closure(ctx, cls):
        fl = ctx.flow(f)
        for kind, attr, node, keyexpr in state_writes(ctx, f):
            at = fl.node_of_expr(node)
            if keyexpr is not None and (_depends_on_ident(ctx, f, keyexpr, at)
                                        or _depends_on_hash_query(ctx, f, keyexpr, at)):
                ok.add(attr)
            else:
                bad.add(attr)
    return ok - bad


def carry_attrs(ctx, cls):
    init_attrs = set()
    for c in cls.mro():
        init = c.methods.get("__init__")
        if init is not None:
            for kind, attr, node, keyexpr in state_writes(ctx, init):
                init_attrs.add(attr)
            # attributes set on ``self`` by optlib init functions are ignored
    written, read = set(), set()
    for f in query_closure(ctx, cls):
        if f.name == "__init__":
            continue
        for kind, attr, node, keyexpr in state_writes(ctx, f):
            written.add(attr)
        for n in walk_local(f.node):
            if isinstance(n, ast.Attribute) and isinstance(n.ctx, ast.Load) and \
                    isinstance(n.value, ast.Name) and n.value.id == "self":
                read.add(n.attr)
    keyed = _threadkeyed_attrs(ctx, cls)
    return (written & read & init_attrs) - keyed - RNG_ATTRS


def result_attrs(ctx, cls, depth=3):
    """attrs of self the returned value of a query method depends on"""
    props = _properties(cls)
    out = set()
    seen = set()

    def visit(f, d):
        if f.key in seen or d > depth:
            return
        seen.add(f.key)
        fl = ctx.flow(f)
        exprs = [n.ast.value for n in fl.returns() if n.ast.value is not None]
        for e in exprs:
            deps = fl.deps(e, fl.node_of_expr(e))
            for dd in deps:
                if dd[0] == "attr" and dd[1] == "self":
                    out.add(dd[2])
                    if dd[2] in props:
                        visit(props[dd[2]], d + 1)
                if dd[0] == "call" and dd[1].startswith("self."):
                    m = cls.lookup(dd[1].split(".", 1)[1])
                    if m is not None:
                        visit(m, d + 1)

    for q in QUERY_METHODS:
        m = cls.lookup(q)
        if m is not None:
            visit(m, 0)
    return out


def is_result_carrying(ctx, cls):
    key = ("c16rc", cls.key)
    cache = ctx.__dict__.setdefault("_c16", {})
    if key not in cache:
        ca = carry_attrs(ctx, cls)
        ra = result_attrs(ctx, cls)
        cache[key] = (sorted(ca & ra), sorted(ca))
    return cache[key]


def _class_values_of_attr(ctx, cls, attr):
    """classes assigned to self.<attr> (attribute holding a class object)"""
    out = set()
    for fn, val in ctx.r.attr_assignments(cls).get(attr, ()):
        r = ctx.p.resolve_expr_static(fn.module, val, fn)
        if isinstance(r, ClassInfo):
            out.add(r)
    return out


def _instance_classes(ctx, f, expr, cls, depth=0):
    """[(ClassInfo, fresh?)] the expression may evaluate to, inside method f of cls"""
    if depth > 11:
        return []
    out = []
    if isinstance(expr, ast.Call):
        d = dotted(expr.func)
        if d and d.startswith("self.") and "(" not in d:
            attr = d.split(".", 1)[1]
            vals = _class_values_of_attr(ctx, cls, attr)
            if vals:
                return [(c, True) for c in vals]
            m = cls.lookup(attr)
            if m is not None:
                for n in walk_local(m.node):
                    if isinstance(n, ast.Return) and n.value is not None:
                        out += _instance_classes(ctx, m, n.value, cls, depth + 1)
                return out
        r = ctx.p.resolve_expr_static(f.module, expr.func, f)
        if isinstance(r, ClassInfo):
            return [(r, True)]
        if isinstance(expr.func, ast.Attribute) and expr.func.attr == "get":
            return _instance_classes(ctx, f, expr.func.value, cls, depth + 1)
        return []
    if isinstance(expr, ast.Name):
        for v in ctx.r.local_assignments(f).get(expr.id, []):
            out += _instance_classes(ctx, f, v, cls, depth + 1)
        return out
    if isinstance(expr, ast.Subscript):
        return _instance_classes(ctx, f, expr.value, cls, depth + 1)
    if isinstance(expr, ast.Attribute) and isinstance(expr.value, ast.Name) and \
            expr.value.id == "self":
        # instances retained in self.<attr> (container): everything ever stored
        attr = expr.attr
        prop = cls.lookup(attr)
        if prop is not None and any("property" in ast.unparse(d) for d in prop.node.decorator_list):
            # a property: whatever its getter returns (``last_opt`` -> this thread's
            # entry of the retained sub-optimizers)
            for n in walk_local(prop.node):
                if isinstance(n, ast.Return) and n.value is not None:
                    out += [(c2, False) for c2, _ in
                            _instance_classes(ctx, prop, n.value, cls, depth + 1)]
            return out
        for c in cls.mro():
            for m in c.methods.values():
                for kind, a2, node, keyexpr in state_writes(ctx, m):
                    if a2 != attr or not isinstance(node, ast.Assign):
                        continue
                    for c2, _ in _instance_classes(ctx, m, node.value, cls, depth + 1):
                        excluded = _excluded_by_guard(ctx, m, node, c2)
                        if not excluded:
                            out.append((c2, False))
        return out
    if isinstance(expr, ast.IfExp):
        return _instance_classes(ctx, f, expr.body, cls, depth + 1) + \
            _instance_classes(ctx, f, expr.orelse, cls, depth + 1)
    return out


def _excluded_by_guard(ctx, m, node, c2):
    """the store is reachable only when ``self.<clsattr> is not c2``: an earlier
    ``if self.<clsattr> is C2: ... return`` dominates it"""
    fl = ctx.flow(m)
    cn = fl.cfg.containing(node, m.module.parents)
    for t in fl.cfg.nodes:
        if t.kind == "test" and isinstance(t.ast, ast.If):
            tt = t.ast.test
            if isinstance(tt, ast.Compare) and len(tt.ops) == 1 and isinstance(tt.ops[0], ast.Is):
                rr = ctx.p.resolve_expr_static(m.module, tt.comparators[0], m)
                if rr is c2 and isinstance(t.ast.body[-1], ast.Return) and \
                        fl.cfg.dominates(t.id, cn.id) and \
                        not any(x is node for b in t.ast.body for x in ast.walk(b)):
                    return True
    return False


def rule_fresh(ctx):
    r = RuleResult("C16-FRESH", "no result-carrying optimizer is reused across queries", 8)
    # (1) classification of every optimizer class
    for c in sorted(optimizer_classes(ctx), key=lambda c: c.key):
        rc, ca = is_result_carrying(ctx, c)
        key = f"{c.key}::C16-FRESH::classification"
        if rc:
            r.ok(key, C.loc(c.module, c.node), "result-carrying (must not be reused by a "
                 "wrapper or registered as a singleton)", carried=rc)
        else:
            r.ok(key, C.loc(c.module, c.node), "query-pure", carried_state=ca)
    # (2) wrappers: instances on which search/__call__ is invoked inside the query closure
    for cls in reuse_classes(ctx):
        for f in query_closure(ctx, cls):
            if f.cls is None or not (cls.is_subclass_of(f.cls)):
                continue
            for call in walk_local(f.node):
                if not isinstance(call, ast.Call):
                    continue
                recv = None
                if isinstance(call.func, ast.Attribute) and call.func.attr == "search":
                    recv = call.func.value
                elif isinstance(call.func, ast.Call):
                    recv = call.func  # obj_factory()(inputs, ...)
                elif isinstance(call.func, ast.Name) and call.func.id in \
                        ctx.r.local_assignments(f) and call.func.id not in ("super",):
                    recv = call.func
                if recv is None or C.unparse(recv) in ("self", "super()"):
                    continue
                classes = _instance_classes(ctx, f, recv, cls)
                if not classes:
                    continue
                key = ctx.key(f, "C16-FRESH", f"{cls.name}:{C.unparse(recv, 50)}")
                bad = []
                for c2, fresh in classes:
                    rc, _ = is_result_carrying(ctx, c2)
                    if rc and not fresh:
                        bad.append((c2, rc))
                if bad:
                    c2, rc = bad[0]
                    r.violation(key, C.loc(f, call), f"a retained {c2.name} instance is searched "
                                f"again for a later query; it carries {rc} across searches, so "
                                "the query can be answered with an earlier contraction's result",
                                classes=sorted({f'{c.name}:{"fresh" if fr else "retained"}'
                                                for c, fr in classes}))
                else:
                    r.ok(key, C.loc(f, call), "searched instances are fresh or query-pure",
                         classes=sorted({f'{c.name}:{"fresh" if fr else "retained"}'
                                         for c, fr in classes}))
    # (3) registered singletons
    for m in ctx.p.modules.values():
        for call in ast.walk(m.tree):
            if not (isinstance(call, ast.Call) and dotted(call.func) in
                    ("register_preset", "register_hyper_function")):
                continue
            if ctx.p.enclosing_func(m, call) is not None:
                continue
            args = list(call.args[1:]) + [k.value for k in call.keywords
                                          if k.arg in ("optimizer", "optimizer_tree", "ssa_func")]
            name = C.unparse(call.args[0], 30) if call.args else "?"
            for a in args:
                inst = a
                if isinstance(a, ast.Attribute) and a.attr in QUERY_METHODS:
                    inst = a.value
                cls2 = None
                if isinstance(inst, ast.Call):
                    rr = ctx.p.resolve_expr_static(m, inst.func)
                    if isinstance(rr, ClassInfo):
                        cls2 = rr
                elif isinstance(inst, ast.Name):
                    rr = ctx.p.resolve_name(m, inst.id)
                    if isinstance(rr, tuple) and rr[0] == "instance":
                        cls2 = rr[1]
                if cls2 is None:
                    continue
                key = f"{m.path}::registration:{name}::C16-FRESH::{cls2.name}"
                rc, _ = is_result_carrying(ctx, cls2)
                if rc:
                    r.violation(key, C.loc(m, call), f"a single {cls2.name} instance is "
                                f"registered for repeated use but carries {rc} across searches")
                else:
                    r.ok(key, C.loc(m, call), f"registered {cls2.name} instance is query-pure")
    # (4) (seed C13_12) no instance of a result-carrying class is parked in a module-level table / global
    # from which later queries pick it up again ("set-up cost" memos of optimizers)
    n_sites = 0
    for m in ctx.p.modules.values():
        for f in m.all_funcs:
            glob = {x for n in walk_local(f.node) if isinstance(n, ast.Global) for x in n.names}
            for n in walk_local(f.node):
                if not isinstance(n, ast.Assign) or not isinstance(n.value, ast.Call):
                    continue
                t = ctx.p.resolve_expr_static(m, n.value.func, f)
                if not isinstance(t, ClassInfo):
                    continue
                rc, _ = is_result_carrying(ctx, t)
                if not rc:
                    continue
                n_sites += 1
                for tg in n.targets:
                    base = tg
                    while isinstance(base, ast.Subscript):
                        base = base.value
                    is_mod_table = isinstance(tg, ast.Subscript) and isinstance(base, ast.Name) and base.id in m.assigns \
                        and base.id not in ctx.r.local_assignments(f) and base.id not in f.params
                    is_global = isinstance(tg, ast.Name) and tg.id in glob
                    if is_mod_table or is_global:
                        key = ctx.key(f, "C16-FRESH", f"parked:{t.name}")
                        r.violation(key, C.loc(f, n), f"`{C.unparse(n, 70)}` keeps a {t.name} (carries {rc} across searches) in "
                                    f"module state; the next query that picks it up can be answered with an earlier "
                                    f"contraction's best result")
    r.note(f"{n_sites} constructions of result-carrying optimizers inspected for parking in module state")
    return r


def rule_ownrun(ctx):
    """search() hands back ``self.last_opt.tree`` (this thread's last suboptimizer)
    exactly when _maybe_run_optimizer says 'searched'.  So every return of
    _maybe_run_optimizer whose flag can still be True must lie behind this
    thread's own _run_optimizer call."""
    from .c14 import _policy_names

    r = RuleResult("C16-OWNRUN", "'searched' is reported only by the thread that searched", 3)
    ro = ctx.p.cls(C.REUSABLE, "ReusableOptimizer")
    f = ro.methods.get("_maybe_run_optimizer")
    C.require(f is not None, "_maybe_run_optimizer not found")
    K, M, CON, SR, hq = _policy_names(ctx, f)
    C.require(SR is not None, "searched-flag of _maybe_run_optimizer not recognised")
    fl = ctx.flow(f)
    cfg = fl.cfg
    runs = [n.id for n, c in fl.calls() if isinstance(c.func, ast.Attribute)
            and c.func.attr == "_run_optimizer"]
    clears = [n.id for n in cfg.nodes if n.kind == "stmt" and isinstance(n.ast, ast.Assign)
              and isinstance(n.ast.targets[0], ast.Name) and n.ast.targets[0].id == SR
              and isinstance(n.ast.value, ast.Constant) and n.ast.value.value is False]
    # edges on which the flag is known to be falsy: the false branch of `if <flag>`, the true branch of
    # `if not <flag>` (a conjunction containing the flag says nothing about the flag on its false branch)
    falsy_edges = set()
    n_tests = 0
    for n in cfg.nodes:
        if n.kind != "test" or not isinstance(n.ast, ast.If):
            continue
        t = n.ast.test
        pol = None
        if isinstance(t, ast.Name) and t.id == SR:
            pol = False
        elif isinstance(t, ast.UnaryOp) and isinstance(t.op, ast.Not) and isinstance(t.operand, ast.Name) and t.operand.id == SR:
            pol = True
        if SR in {x.id for x in ast.walk(t) if isinstance(x, ast.Name)}:
            n_tests += 1
        if pol is None:
            continue
        for sid in cfg.succ[n.id]:
            if cfg.branch.get((n.id, sid)) is pol:
                falsy_edges.add((n.id, sid))
    C.require(n_tests, "no test of the searched flag found")
    # definitions after which the flag may be truthy
    defs = [n.id for n in cfg.nodes if n.kind == "stmt" and isinstance(n.ast, ast.Assign)
            and any(isinstance(t_, ast.Name) and t_.id == SR for t_ in n.ast.targets) and n.id not in clears]
    C.require(defs, "definition of the searched flag not found")

    def path_flag_true(dst):
        """a path from a truthy-capable definition of the flag to dst that neither runs the sub-optimizer, nor
        clears the flag, nor crosses an edge on which the flag is falsy"""
        for d0 in defs:
            stack, seen = [[d0]], {d0}
            while stack:
                pth = stack.pop()
                cur = pth[-1]
                if cur == dst and len(pth) > 1:
                    return pth
                for sid in cfg.succ[cur]:
                    if (cur, sid) in falsy_edges or sid in clears or sid in seen:
                        continue
                    # (seed C16_12) the statement that runs the sub-optimizer ends a path — except along the edge
                    # to an exception handler: there the run did not complete and nothing was recorded for it
                    if cur in runs and cfg.nodes[sid].kind != "handler":
                        continue
                    if sid in defs and sid != d0:
                        continue
                    seen.add(sid)
                    stack.append(pth + [sid])
        return None
    for rt in fl.returns():
        v = rt.ast.value
        key = ctx.key(f, "C16-OWNRUN", f"return@{'flag' if v is not None else 'none'}")
        if not (isinstance(v, ast.Tuple) and v.elts and isinstance(v.elts[0], ast.Name)
                and v.elts[0].id == SR):
            if isinstance(v, ast.Tuple) and v.elts and isinstance(v.elts[0], ast.Constant) \
                    and v.elts[0].value is False:
                r.ok(key, C.loc(f, rt.ast), "returns searched=False")
                continue
            r.violation(key, C.loc(f, rt.ast), "return value is not (searched-flag, record)")
            continue
        bad = path_flag_true(rt.id)
        if bad:
            r.violation(key, C.loc(f, rt.ast), "this return can report searched=True on a path "
                        "on which this thread did not run the suboptimizer itself; search() "
                        "then hands back self.last_opt.tree — the tree of whatever this thread "
                        "searched last", path=cfg.describe_path(bad))
        else:
            r.ok(key, C.loc(f, rt.ast), "searched=True only behind this thread's own search")
    # search(): last_opt.tree only under the flag
    s_ = ro.methods.get("search")
    key = ctx.key(s_, "C16-OWNRUN", "search")
    lasts = [n for n in walk_local(s_.node) if isinstance(n, ast.Attribute) and n.attr == "tree"
             and "last_opt" in ast.unparse(n.value)]
    ok = bool(lasts) and all(any(t and isinstance(i.test, ast.Name)
                                 for i, t in C.enclosing_ifs(s_, C.enclosing_stmt(s_, n)))
                             for n in lasts)
    if ok:
        r.ok(key, s_.loc, "last_opt.tree is returned only under the searched flag")
    elif not lasts:
        r.ok(key, s_.loc, "search() does not use per-thread leftovers")
    else:
        r.violation(key, s_.loc, "search() returns last_opt.tree without checking that this "
                    "query searched")
    # every implementation of _run_optimizer records the sub-optimizer that ran for this
    # thread on every normal path (search() reads it back through last_opt)
    if lasts:
        for c in ctx.p.classes.values():
            if not c.is_subclass_of(ro):
                continue
            m = c.methods.get("_run_optimizer")
            if m is None:
                continue
            fl2 = ctx.flow(m)
            marks = []
            for n in fl2.cfg.nodes:
                if n.kind != "stmt" or n.ast is None:
                    continue
                st = n.ast
                stores = isinstance(st, ast.Assign) and any(
                    isinstance(t, ast.Subscript) and isinstance(t.value, ast.Attribute)
                    and t.value.attr == "_suboptimizers" for t in st.targets)
                delegates = any(isinstance(x, ast.Call) and isinstance(x.func, ast.Attribute)
                                and x.func.attr == "_run_optimizer" and isinstance(x.func.value, ast.Call)
                                and dotted(x.func.value.func) == "super" for x in ast.walk(st))
                if stores or delegates:
                    marks.append(n.id)
            key = ctx.key(m, "C16-OWNRUN", "records-suboptimizer")
            # the slot is filled only once the search it describes has finished: a query can run
            # nested queries of the same thread through the same optimizer (partition builders
            # join their parts with optimize="auto-hq"), and each of them fills the slot too
            searches = [n.id for n in fl2.cfg.nodes if n.kind == "stmt" and n.ast is not None and any(
                isinstance(x, ast.Call) and isinstance(x.func, ast.Attribute) and x.func.attr in ("search", "__call__")
                for x in ast.walk(n.ast))]
            store_nodes = [n for n in marks if isinstance(fl2.cfg.nodes[n].ast, ast.Assign) and any(
                isinstance(t, ast.Subscript) for t in fl2.cfg.nodes[n].ast.targets)]
            early = [sn for sn in store_nodes
                     if any(sr in fl2.cfg.reachable_from_succs(sn) for sr in searches)]
            if early:
                r.violation(key, C.loc(m, fl2.cfg.nodes[early[0]].ast), "the sub-optimizer is recorded for this "
                            "thread *before* its search runs: a nested query of the same thread (a partition "
                            "trial joining its parts through the same preset) records its own afterwards, and "
                            "the outer query hands back the nested query's tree")
            elif marks and fl2.cfg.all_paths_pass(fl2.cfg.entry.id, marks):
                r.ok(key, m.loc, "the sub-optimizer that ran is recorded for this thread on every path")
            else:
                pth = fl2.cfg.path_avoiding(fl2.cfg.entry.id, marks) if marks else None
                r.violation(key, m.loc, "_run_optimizer can return a record without recording the "
                            "sub-optimizer that produced it for this thread: search() then answers a "
                            "'searched' query with self.last_opt.tree - the tree of an earlier query",
                            path=fl2.cfg.describe_path(pth) if pth else "")
    return r


_MUT = {"append", "extend", "insert", "add", "update", "pop", "popitem", "remove", "discard", "clear", "setdefault", "sort", "reverse"}


def rule_classstate(ctx):
    """(seed C16_11) State that belongs to one query lives on the instance.  A mutable container bound at *class*
    level and mutated through `self.<name>` (append, item store, …) by a method — without the constructor re-binding
    the name on the instance — is one object shared by every instance of the class and its subclasses: the fresh
    sub-optimizers a reusable optimizer creates per query, searching on different threads, then append to and poll
    the same list."""
    r = RuleResult("C16-CLASSSTATE", "no per-query state in class-level mutable containers", 1)
    n_cls = 0
    bad = []
    for m in ctx.p.modules.values():
        for cls in (m.classes.values() if isinstance(m.classes, dict) else m.classes):
            n_cls += 1
            shared = {}
            for st in cls.node.body:
                if isinstance(st, (ast.Assign, ast.AnnAssign)) and getattr(st, "value", None) is not None:
                    v = st.value
                    mutable = isinstance(v, (ast.List, ast.Dict, ast.Set, ast.ListComp, ast.DictComp, ast.SetComp)) or \
                        (isinstance(v, ast.Call) and (dotted(v.func) or "").split(".")[-1] in
                         ("list", "dict", "set", "defaultdict", "OrderedDict", "Counter", "deque", "oset"))
                    if not mutable:
                        continue
                    tg = st.targets if isinstance(st, ast.Assign) else [st.target]
                    for t in tg:
                        if isinstance(t, ast.Name) and not (t.id.startswith("__") and t.id.endswith("__")):
                            shared[t.id] = st
            if not shared:
                continue
            family = [cls] + cls.all_subclasses()
            for nm, st in shared.items():
                rebound_in_init = False
                for c in cls.mro():
                    init = c.methods.get("__init__")
                    if init is not None:
                        rebound_in_init = any(isinstance(n, ast.Assign) and any(C.unparse(t) == f"self.{nm}" for t in n.targets)
                                              for n in walk_local(init.node))
                        break
                if rebound_in_init:
                    continue
                for c in family:
                    for f in c.methods.values():
                        for n in walk_local(f.node):
                            hit = None
                            if isinstance(n, ast.Call) and isinstance(n.func, ast.Attribute) and n.func.attr in _MUT \
                                    and C.unparse(n.func.value) == f"self.{nm}":
                                hit = n
                            elif isinstance(n, (ast.Assign, ast.AugAssign, ast.Delete)):
                                tg = n.targets if isinstance(n, (ast.Assign, ast.Delete)) else [n.target]
                                if any(isinstance(t, ast.Subscript) and C.unparse(t.value) == f"self.{nm}" for t in tg):
                                    hit = n
                                if isinstance(n, ast.AugAssign) and C.unparse(n.target) == f"self.{nm}":
                                    hit = n
                            if hit is not None:
                                # a method that first re-binds the name on the instance works on its own object
                                own = any(isinstance(x, ast.Assign) and any(C.unparse(t) == f"self.{nm}" for t in x.targets)
                                          and x.lineno < hit.lineno and not C.enclosing_ifs(f, x) for x in walk_local(f.node))
                                if not own:
                                    bad.append((cls, nm, st, f, hit))
    k = "cotengra::C16-CLASSSTATE"
    if bad:
        for cls, nm, st, f, hit in bad[:6]:
            r.violation(f"{cls.module.path}::{cls.name}.{nm}::C16-CLASSSTATE::{f.name}@{hit.lineno - f.node.lineno}", C.loc(f, hit),
                        f"`{nm}` is bound to a mutable container in the body of class {cls.name} and `{C.unparse(hit, 50)}` in {f.qual} mutates it "
                        "through `self` without the instance ever getting its own: all instances share one object — concurrent queries "
                        "through one reusable optimizer (a fresh sub-optimizer each) mix their state")
    else:
        r.ok(k, "cotengra", f"{n_cls} classes: no class-level mutable container is mutated through self")
        if not getattr(ctx, "_is_positive_example", False):
            src = ctx.p.sources[C.HYPER]
            r.note(C.positive_example(
                ctx, rule_classstate,
                [(C.HYPER, None, src + "\n\nclass _C16ClassStatePositiveExample:\n    pending = []\n\n    def push(self, x):\n        self.pending.append(x)\n")],
                "_C16ClassStatePositiveExample"))
    return r


def rule_futures(ctx):
    """Shared with C08-ASSESS fresh-futures (seed C16_11): the list of outstanding pool trials is created afresh by
    every parallel search."""
    from .c08 import rule_assess as src

    return C.reuse_rule(ctx, src, "C08-ASSESS", "C16-FUTURES", "outstanding pool trials belong to one search",
                        lambda i: "fresh-futures" in i.construct, 1)


def rule_memofactory(ctx):
    """(seed C05_8) A function memoised with `functools.lru_cache` / `cache` keeps whatever it returns for the life of
    the process.  If that is an instance of an optimizer class whose searches leave results on the instance (best
    path, best score — computed by the carry-over analysis), every later query with the same options is answered by
    an object that remembers earlier contractions: it returns the earlier network's path when that was cheaper."""
    r = RuleResult("C16-MEMOFACTORY", "no memoised factory hands out a result-carrying optimizer", 1)
    n_memo = 0
    bad = []
    for m in ctx.p.modules.values():
        for f in m.all_funcs:
            decos = [C.unparse(d) for d in f.node.decorator_list]
            if not any("lru_cache" in d or d.endswith("cache") or "functools.cache" in d for d in decos):
                continue
            n_memo += 1
            for n in walk_local(f.node):
                if not (isinstance(n, ast.Return) and n.value is not None):
                    continue
                exprs = [n.value]
                if isinstance(n.value, ast.Name):
                    exprs = ctx.r.local_assignments(f).get(n.value.id, [])
                for e in exprs:
                    if not isinstance(e, ast.Call):
                        continue
                    res = ctx.p.resolve_expr_static(f.module, e.func, f)
                    if isinstance(res, ClassInfo):
                        carried, _all = is_result_carrying(ctx, res)
                        if carried:
                            bad.append((f, n, res, carried))
    if bad:
        for f, n, cls, carried in bad:
            r.violation(ctx.key(f, "C16-MEMOFACTORY"), C.loc(f, n), f"{f.qual} is memoised and returns a {cls.name}, whose searches leave {carried} on the "
                        "instance: a later query with the same options is answered by the object that served an earlier contraction — it "
                        "keeps that contraction's best path whenever the new one is not cheaper")
    else:
        r.ok("cotengra::C16-MEMOFACTORY", "cotengra", f"{n_memo} memoised functions: none returns an instance of a result-carrying optimizer")
        if not getattr(ctx, "_is_positive_example", False):
            src = ctx.p.sources["cotengra/__init__.py"]
            r.note(C.positive_example(
                ctx, rule_memofactory,
                [("cotengra/__init__.py", None, src + "\n\n@functools.lru_cache(None)\ndef _c16_memofactory_positive_example(opts):\n    return RandomGreedyOptimizer(**dict(opts))\n")],
                "_c16_memofactory_positive_example"))
    return r


RULES = [rule_memofactory, rule_classstate, rule_futures, rule_threadkey, rule_fresh, rule_ownrun]
