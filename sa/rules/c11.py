"""C11 — matmul-based einsum / tensordot (narrow structural clauses; values are not decided)."""

from __future__ import annotations

import ast

from ..engine.program import AnalysisError, dotted, walk_local
from ..engine.report import RuleResult
from . import common as C

PID = "C11"
EXPLANATION = (
    "Numerical agreement with the reference einsum/tensordot is NOT decided. Decided is the "
    "agreement of the layouts the planner fixes: (LAYOUT) the four index groups of "
    "_parse_eq_to_batch_matmul are identified by the conditions under which they are filled; "
    "every layout expression (prepared operands, reshape groups, produced output) is "
    "abstractly evaluated to a sequence of group symbols and checked against the matmul "
    "contract (B,M,K)x(B,K,N)->(B,M,N), with and without batch indices, size-1 output "
    "indices first as the output reshape places them; (PERM) every tuple handed to transpose "
    "has the direction source.index(ix) for ix in target; (SINGLE) the single-operand planner "
    "and its executor agree on stage order (diagonal, sum, transpose; each stage planned on "
    "the equation as rewritten by the previous one) and on the meaning of each returned "
    "element, matched by construction/usage kind; (AXES) tensordot's integer-axes fall-back "
    "catches TypeError, caller-supplied axis numbers are normalised before being compared "
    "with enumerated positions; (MEMO) the cached planners are pure."
)
ASSUMPTIONS = ("matmul contracts the last axis of its first with the second-to-last axis of its "
               "second operand and broadcasts leading axes; transpose(x, p) puts source axis p[i] at i",)

PLAN = "_parse_eq_to_batch_matmul"


def _plan(ctx):
    return ctx.p.func(C.CONTRACT, PLAN)


def _groups(f):
    """list variable -> group symbol, from the conditions guarding `<list>.append(ix)`."""
    a_term, b_term, out = None, None, None
    # a_term, b_term = lhs.split(","); lhs, out = eq.split("->")
    for n in walk_local(f.node):
        if isinstance(n, ast.Assign) and isinstance(n.targets[0], ast.Tuple) and isinstance(n.value, ast.Call) \
                and isinstance(n.value.func, ast.Attribute) and n.value.func.attr == "split" and n.value.args \
                and isinstance(n.value.args[0], ast.Constant):
            names = [getattr(e, "id", None) for e in n.targets[0].elts]
            if n.value.args[0].value == "->" and len(names) == 2:
                out = names[1]
            elif n.value.args[0].value == "," and len(names) == 2:
                a_term, b_term = names
    C.require(a_term and b_term and out, f"{PLAN}: equation split not recognised")
    groups = {}
    for n in walk_local(f.node):
        if not (isinstance(n, ast.Call) and isinstance(n.func, ast.Attribute) and n.func.attr == "append"
                and isinstance(n.func.value, ast.Name) and n.args and isinstance(n.args[0], ast.Name)):
            continue
        st = C.enclosing_stmt(f, n)
        # which loop: over a_term or b_term
        loops = C.enclosing_loops(f, st)
        src = None
        for lp in loops:
            if isinstance(lp, ast.For):
                t = C.unparse(lp.iter)
                if a_term in t and b_term not in t:
                    src = "a"
                elif b_term in t and a_term not in t:
                    src = "b"
        if src is None:
            continue
        conds = {}
        for i, in_true in C.enclosing_ifs(f, st):
            t = i.test
            # elif chains: being in the else of `if ix in b_term` means not in b_term
            for c in ([t] if not isinstance(t, ast.BoolOp) else t.values):
                if isinstance(c, ast.Compare) and len(c.ops) == 1 and isinstance(c.ops[0], (ast.In, ast.NotIn)) \
                        and isinstance(c.comparators[0], ast.Name):
                    where = c.comparators[0].id
                    pos = isinstance(c.ops[0], ast.In)
                    val = pos if in_true else not pos
                    if where in (a_term, b_term, out):
                        conds.setdefault(where, val)
        other = b_term if src == "a" else a_term
        in_other, in_out = conds.get(other), conds.get(out)
        sym = None
        if in_other is True and in_out is True:
            sym = "BAT"
        elif in_other is True and in_out is False:
            sym = "CON"
        elif in_other is False and in_out is True:
            sym = "AK" if src == "a" else "BK"
        if sym is not None:
            groups[n.func.value.id] = sym
    return groups, a_term, b_term, out


def _seq(e, groups, env, single=None):
    """abstract sequence of group symbols of a layout expression, or None"""
    if isinstance(e, ast.Call) and isinstance(e.func, ast.Attribute) and e.func.attr == "join" and e.args:
        return _seq(e.args[0], groups, env, single)
    if isinstance(e, (ast.Tuple, ast.List)):
        out = []
        for x in e.elts:
            v = x.value if isinstance(x, ast.Starred) else x
            if isinstance(v, ast.Name):
                if v.id in groups:
                    out.append(groups[v.id])
                elif v.id == single:
                    out.append("S")
                elif v.id in env:
                    out.extend(env[v.id])
                else:
                    return None
            else:
                return None
        return out
    if isinstance(e, ast.Name) and e.id in env:
        return list(env[e.id])
    return None


def rule_layout(ctx):
    r = RuleResult("C11-LAYOUT", "the planner's layouts satisfy the matmul contract", 9)
    f = _plan(ctx)
    groups, a_term, b_term, out = _groups(f)
    have = set(groups.values())
    C.require(have == {"BAT", "CON", "AK", "BK"},
              f"{PLAN}: index groups recognised {sorted(groups.items())}; expected batch/contracted/kept-left/kept-right")
    # the size-1 output indices: a list comprehension over `out`
    single = None
    for n in walk_local(f.node):
        if isinstance(n, ast.Assign) and isinstance(n.targets[0], ast.Name) and isinstance(n.value, ast.ListComp):
            g = n.value.generators[0]
            if dotted(g.iter) == out and g.ifs:
                single = n.targets[0].id
    # collect layout assignments (possibly one per branch of `if <batch list>:`)
    bat_name = [k for k, v in groups.items() if v == "BAT"][0]
    layouts = {}  # name -> {branch: seq}
    for n in walk_local(f.node):
        if not (isinstance(n, ast.Assign) and len(n.targets) == 1 and isinstance(n.targets[0], ast.Name)):
            continue
        seq = _seq(n.value, groups, {}, single)
        if seq is None or not seq:
            continue
        branch = "any"
        for i, in_true in C.enclosing_ifs(f, n):
            if dotted(i.test) == bat_name:
                branch = "bat" if in_true else "nobat"
        layouts.setdefault(n.targets[0].id, {})[branch] = seq

    def find(pred):
        return [(k, v) for k, v in layouts.items() if pred(v)]

    flat = [(k, v["any"]) for k, v in layouts.items() if "any" in v]
    grouped = [(k, v) for k, v in layouts.items() if "bat" in v and "nobat" in v]
    key = lambda d: ctx.key(f, "C11-LAYOUT", d)  # noqa: E731

    # prepared operands
    da = [s for k, s in flat if "AK" in s and "BK" not in s and "S" not in s]
    db = [s for k, s in flat if "BK" in s and "AK" not in s and "S" not in s]
    prod = [s for k, s in flat if "AK" in s and "BK" in s]
    C.require(len(da) == 1 and len(db) == 1 and len(prod) == 1,
              f"{PLAN}: prepared-operand / produced-output layouts not recognised ({flat})")
    da, db, prod = da[0], db[0], prod[0]
    if da == ["BAT", "AK", "CON"]:
        r.ok(key("left"), f.loc, "left operand prepared as (batch, kept-left, contracted)")
    else:
        r.violation(key("left"), f.loc, f"the left operand is prepared as {da}: matmul contracts its last "
                    f"axis, which must be the contracted group, after (batch, kept-left)")
    if db == ["BAT", "CON", "BK"]:
        r.ok(key("right"), f.loc, "right operand prepared as (batch, contracted, kept-right)")
    else:
        r.violation(key("right"), f.loc, f"the right operand is prepared as {db}: matmul contracts its "
                    f"second-to-last axis; the layout must be (batch, contracted, kept-right)")
    # reshape groups
    lg = [v for k, v in grouped if "AK" in v["bat"] and "BK" not in v["bat"]]
    rg = [v for k, v in grouped if "BK" in v["bat"] and "AK" not in v["bat"]]
    og = [v for k, v in grouped if "BK" in v["bat"] and "AK" in v["bat"]]
    C.require(len(lg) == 1 and len(rg) == 1 and len(og) == 1, f"{PLAN}: reshape groups not recognised ({grouped})")
    lg, rg, og = lg[0], rg[0], og[0]
    for nm, g, want in (("left-groups", lg, da), ("right-groups", rg, db)):
        nb = [x for x in want if x != "BAT"]
        if g["bat"] == want and g["nobat"] == nb:
            r.ok(key(nm), f.loc, f"fused as {g['bat']} / without batch {g['nobat']}, the order the operand was prepared in")
        else:
            r.violation(key(nm), f.loc, f"the operand is prepared as {want} but fused as {g['bat']} "
                        f"(without batch: {g['nobat']}): the reshape groups axes that are not adjacent in that order")
    want_o = ["BAT", "AK", "BK"]
    if og["bat"] == want_o and og["nobat"] == want_o[1:]:
        r.ok(key("out-groups"), f.loc, "matmul result unfused as (batch, kept-left, kept-right)")
    else:
        r.violation(key("out-groups"), f.loc, f"the matmul result has axes (batch, kept-left, kept-right) but "
                    f"is unfused as {og['bat']} / {og['nobat']}")
    # produced output order vs the output reshape (size-1 axes first)
    shape_first = None
    for n in walk_local(f.node):
        if isinstance(n, ast.Assign) and isinstance(n.value, ast.BinOp) and isinstance(n.value.op, ast.Add):
            l, rr = n.value.left, n.value.right
            def ones(x):
                return isinstance(x, ast.BinOp) and isinstance(x.op, ast.Mult) and single is not None and \
                    single in C.unparse(x) and "1" in C.unparse(x)
            if ones(l):
                shape_first = True
            elif ones(rr):
                shape_first = False
    if single is None or shape_first is None:
        raise AnalysisError(f"{PLAN}: the placement of size-1 output axes in the output reshape was not recognised")
    want_p = (["S"] if shape_first else []) + want_o + ([] if shape_first else ["S"])
    if prod == want_p:
        r.ok(key("produced"), f.loc, f"produced order {prod} = size-1 axes {'first' if shape_first else 'last'} "
             f"(as the output reshape places them) + output groups")
    else:
        r.violation(key("produced"), f.loc, f"the final permutation assumes the matmul result is laid out as {prod}, "
                    f"but the output reshape produces {want_p}")
    # (seed C11_1) each reshape is planned under a guard that holds whenever the reshape is needed: a group
    # that is not exactly one index; for the output also whenever there are size-1 output axes to re-insert
    for n in walk_local(f.node):
        if not (isinstance(n, ast.If) and n.orelse and len(n.body) == 1 and isinstance(n.body[0], ast.Assign)
                and isinstance(n.orelse[0], ast.Assign) and isinstance(n.orelse[0].value, ast.Constant)
                and n.orelse[0].value.value is None and isinstance(n.body[0].targets[0], ast.Name)):
            continue
        val = n.body[0].value
        iters = {dotted(g.iter) for x in ast.walk(val) if isinstance(x, (ast.GeneratorExp, ast.ListComp))
                 for g in x.generators if isinstance(g.iter, ast.Name)}
        gname = [k_ for k_, v in grouped if k_ in iters]
        if not gname:
            continue
        gname = gname[0]
        uses_single = single is not None and single in {x.id for x in ast.walk(val) if isinstance(x, ast.Name)}
        t = n.test
        disj = t.values if isinstance(t, ast.BoolOp) and isinstance(t.op, ast.Or) else [t]

        def is_any_over(e, g_):
            return isinstance(e, ast.Call) and dotted(e.func) == "any" and e.args and \
                isinstance(e.args[0], (ast.GeneratorExp, ast.ListComp)) and \
                dotted(e.args[0].generators[0].iter) == g_ and not e.args[0].generators[0].ifs and \
                isinstance(e.args[0].elt, ast.Compare) and "len(" in C.unparse(e.args[0].elt) and \
                isinstance(e.args[0].elt.ops[0], (ast.NotEq, ast.Gt, ast.Lt))

        def is_single(e):
            if isinstance(e, ast.Name) and e.id == single:
                return True
            u = C.unparse(e)
            return single is not None and u in (f"len({single}) > 0", f"len({single}) != 0", f"len({single}) >= 1",
                                               f"bool({single})", f"{single} != []")
        kk = key(f"reshape-guard:{n.body[0].targets[0].id}")
        probs = []
        if not any(is_any_over(e, gname) for e in disj):
            probs.append(f"`{C.unparse(t, 70)}` has no disjunct 'some group of `{gname}` is not a single index' over "
                         f"the groups the shape is computed from")
        if uses_single and not any(is_single(e) for e in disj):
            probs.append(f"`{C.unparse(t, 70)}`: the size-1 output axes (`{single}`) are re-inserted by this reshape "
                         f"only; without `{single}` as a disjunct of its own the reshape is skipped when every group "
                         f"is a single index, and the result lacks those axes")
        if probs:
            r.violation(kk, C.loc(f, n), "; ".join(probs))
        else:
            r.ok(kk, C.loc(f, n), f"planned whenever a group of `{gname}` is not one index"
                 + (f" or `{single}` is non-empty" if uses_single else ""))
    return r


# ------------------------------------------------------------------ PERM

def rule_perm(ctx):
    r = RuleResult("C11-PERM", "transposition tuples have the direction source.index(ix) for ix in target", 4)
    m = ctx.p.module(C.CONTRACT)
    for fname in (PLAN, "_parse_einsum_single"):
        f = ctx.p.func(C.CONTRACT, fname)
        for n in walk_local(f.node):
            if not (isinstance(n, ast.Call) and dotted(n.func) == "tuple" and n.args
                    and isinstance(n.args[0], ast.GeneratorExp)):
                continue
            g = n.args[0]
            e = g.elt
            if not (isinstance(e, ast.Call) and isinstance(e.func, ast.Attribute) and e.func.attr == "index"
                    and isinstance(e.func.value, ast.Name) and e.args and isinstance(e.args[0], ast.Name)):
                continue
            gen = g.generators[0]
            if not (isinstance(gen.target, ast.Name) and gen.target.id == e.args[0].id
                    and isinstance(gen.iter, ast.Name)):
                continue
            source, target = e.func.value.id, gen.iter.id
            st = C.enclosing_stmt(f, n)
            tgt = C.unparse(st.targets[0]) if isinstance(st, ast.Assign) else "?"
            k = ctx.key(f, "C11-PERM", f"{len(r.instances)}")
            # which is the layout the array *has* and which the one it *should get*
            role = _roles(f, source, target)
            if role == "ok":
                r.ok(k, C.loc(f, n), f"`{tgt}` = positions in the current layout `{source}` of the axes of the "
                     f"wanted layout `{target}`")
            elif role == "reversed":
                r.violation(k, C.loc(f, n), f"`{C.unparse(n, 60)}` lists, for each axis of the *current* layout, "
                            f"its position in the wanted one: that is the inverse permutation, right only for "
                            f"involutions (swaps)")
            else:
                raise AnalysisError(f"{f.qual}: cannot tell current from wanted layout in `{C.unparse(n, 60)}`")
    return r


def _roles(f, source, target):
    """'ok' if `source` is the layout the array currently has and `target` the wanted one."""
    params_like = set()
    wanted = set()
    for n in walk_local(f.node):
        # names split from the equation: the output is a wanted layout, input terms are current layouts
        if isinstance(n, ast.Assign) and isinstance(n.targets[0], ast.Tuple) and isinstance(n.value, ast.Call):
            fn = n.value.func
            names = [getattr(e, "id", None) for e in n.targets[0].elts]
            if isinstance(fn, ast.Attribute) and fn.attr == "split" and n.value.args and \
                    isinstance(n.value.args[0], ast.Constant):
                if n.value.args[0].value == "->":
                    wanted.add(names[-1])
                    params_like.add(names[0])
                elif n.value.args[0].value == ",":
                    params_like.update(names)
            elif dotted(fn) == "_sanitize_equation" and len(names) == 2:
                params_like.add(names[0])
                wanted.add(names[1])
    # layouts built by the planner itself ("desired_*": wanted; "*_produced": current)
    built_current, built_wanted = set(), set()
    for n in walk_local(f.node):
        if isinstance(n, ast.Assign) and isinstance(n.targets[0], ast.Name) and isinstance(n.value, ast.Call) \
                and isinstance(n.value.func, ast.Attribute) and n.value.func.attr == "join":
            nm = n.targets[0].id
            # a layout that is later compared with an input term is what that term should become
            cmp_with_term = any(isinstance(c, ast.Compare) and {C.unparse(c.left), C.unparse(c.comparators[0])} >= {nm}
                                and ({C.unparse(c.left), C.unparse(c.comparators[0])} & params_like)
                                for c in walk_local(f.node) if isinstance(c, ast.Compare))
            if cmp_with_term:
                built_wanted.add(nm)
            else:
                built_current.add(nm)
    cur = params_like | built_current
    want = wanted | built_wanted
    if source in cur and target in want:
        return "ok"
    if source in want and target in cur:
        return "reversed"
    return "unknown"


# ------------------------------------------------------------------ SINGLE

def rule_single(ctx):
    r = RuleResult("C11-SINGLE", "single-operand planner and executor agree on stages and their order", 3)
    pf = ctx.p.func(C.CONTRACT, "_parse_einsum_single")
    ef = ctx.p.func(C.CONTRACT, "_einsum_single")
    # planner: kinds of the returned elements
    rets = [n for n in walk_local(pf.node) if isinstance(n, ast.Return) and isinstance(n.value, ast.Tuple)]
    C.require(len(rets) == 1 and len(rets[0].value.elts) == 3, "_parse_einsum_single: expected one 3-tuple return")
    pnames = [getattr(e, "id", None) for e in rets[0].value.elts]
    C.require(all(pnames), "_parse_einsum_single: returned elements are not plain names")

    def pkind(nm):
        vals = [n.value for n in walk_local(pf.node) if isinstance(n, ast.Assign)
                and any(dotted(t) == nm for t in n.targets) and not (isinstance(n.value, ast.Constant))]
        txt = " ".join(C.unparse(v, 200) for v in vals)
        apps = [C.unparse(c.args[0], 100) for c in walk_local(pf.node) if isinstance(c, ast.Call)
                and isinstance(c.func, ast.Attribute) and c.func.attr == "append" and dotted(c.func.value) == nm and c.args]
        # diag: a list that receives selectors built with slice(None)
        for a in apps:
            if "slice(" in a:
                return "diag"
            d = [n.value for n in walk_local(pf.node) if isinstance(n, ast.Assign) and dotted(n.targets[0]) == a]
            if any("slice(" in C.unparse(v, 200) for v in d):
                return "diag"
        if ".index" in txt and "map(" in txt:
            return "sum"
        if ".index(" in txt and " for " in txt:
            return "perm"
        return "?"
    pk = [pkind(n) for n in pnames]
    # executor: unpack and usage kinds
    unp = [n for n in walk_local(ef.node) if isinstance(n, ast.Assign) and isinstance(n.targets[0], ast.Tuple)
           and isinstance(n.value, ast.Call) and dotted(n.value.func) == "_parse_einsum_single"]
    C.require(len(unp) == 1 and len(unp[0].targets[0].elts) == 3, "_einsum_single: unpacking of the plan not found")
    enames = [e.id for e in unp[0].targets[0].elts]

    def ekind(nm):
        for n in walk_local(ef.node):
            if isinstance(n, ast.For) and dotted(n.iter) == nm and any(
                    isinstance(x, ast.Subscript) for s in n.body for x in ast.walk(s)):
                return "diag"
            if isinstance(n, ast.Call) and dotted(n.func) == "do" and n.args and isinstance(n.args[0], ast.Constant) \
                    and any(dotted(a) == nm for a in n.args[1:]):
                return {"sum": "sum", "transpose": "perm"}.get(n.args[0].value, "?")
        return "?"
    ek = [ekind(n) for n in enames]
    k = ctx.key(pf, "C11-SINGLE", "positions")
    if "?" in pk or "?" in ek:
        raise AnalysisError(f"single-operand plan: element kinds not recognised (planner {pk}, executor {ek})")
    if pk == ek:
        r.ok(k, C.loc(pf, rets[0]), f"plan returned as {pk}, consumed as {ek}")
    else:
        r.violation(k, C.loc(pf, rets[0]), f"the planner returns {pk} but the executor consumes the tuple as {ek}")
    # stage order in the executor
    k = ctx.key(ef, "C11-SINGLE", "executor-order")
    order = []
    for st in ef.node.body:
        if isinstance(st, ast.If):
            for nm, kd in zip(enames, ek):
                if nm in {x.id for x in ast.walk(st.test) if isinstance(x, ast.Name)}:
                    order.append(kd)
    if order == ["diag", "sum", "perm"]:
        r.ok(k, ef.loc, "executes diagonal selection, then sums, then the transposition")
    else:
        r.violation(k, ef.loc, f"stages are executed in the order {order}; the plan is computed for diag → sum → perm "
                    f"(each on the equation as rewritten by the previous stage)")
    # stage order in the planner: each plan is computed after the previous stage rewrote the term
    k = ctx.key(pf, "C11-SINGLE", "planner-order")
    pos = {}
    for i, st in enumerate(pf.node.body):
        for nm, kd in zip(pnames, pk):
            if any(isinstance(x, ast.Assign) and any(dotted(t) == nm for t in x.targets)
                   and not isinstance(x.value, ast.Constant) for x in ast.walk(st)):
                pos.setdefault(kd, i)
    # the term is rewritten inside the diag and sum stages
    lhs = None
    for n in walk_local(pf.node):
        if isinstance(n, ast.Assign) and isinstance(n.targets[0], ast.Tuple) and isinstance(n.value, ast.Call) \
                and dotted(n.value.func) == "_sanitize_equation":
            lhs = n.targets[0].elts[0].id
    C.require(lhs is not None, "_parse_einsum_single: equation split not found")
    rewrites = {}
    for i, st in enumerate(pf.node.body):
        if any(isinstance(x, ast.Assign) and dotted(x.targets[0]) == lhs and isinstance(x.value, (ast.Call, ast.BinOp))
               and "replace" in C.unparse(x.value) for x in ast.walk(st)):
            rewrites.setdefault(i, True)
    good = pos.get("diag", -1) < pos.get("sum", -1) < pos.get("perm", -1) and \
        pos.get("diag") in rewrites and pos.get("sum") in rewrites
    if good:
        r.ok(k, pf.loc, "sum axes are looked up after the diagonal rewrite, the permutation after the summed "
             "indices were removed")
    else:
        r.violation(k, pf.loc, f"stage plans are computed in the order {sorted(pos, key=pos.get)} / the term is not "
                    f"rewritten inside the diagonal and sum stages: later stages index axes that no longer exist")
    return r


# ------------------------------------------------------------------ AXES

def rule_axes(ctx):
    r = RuleResult("C11-AXES", "tensordot accepts every documented form of axes", 2)
    f = ctx.p.func(C.CONTRACT, "tensordot")
    pf = ctx.p.func(C.CONTRACT, "_parse_tensordot_axes_to_matmul")
    # (a) the scalar fall-back
    k = ctx.key(f, "C11-AXES", "int-fallback")
    axes = "axes"
    tries = [n for n in walk_local(f.node) if isinstance(n, ast.Try)]
    handled = None
    for t in tries:
        subs = [x for s in t.body for x in ast.walk(s) if isinstance(x, ast.Subscript) and dotted(x.value) == axes]
        if not subs:
            continue
        for h in t.handlers:
            conv = any(isinstance(x, ast.Call) and dotted(x.func) == "int" and x.args and dotted(x.args[0]) == axes
                       for s in h.body for x in ast.walk(s))
            if conv:
                types = []
                if h.type is None:
                    types = ["BaseException"]
                elif isinstance(h.type, ast.Tuple):
                    types = [dotted(e) for e in h.type.elts]
                else:
                    types = [dotted(h.type)]
                handled = (h, types)
    is_inst = any(isinstance(n, ast.Call) and dotted(n.func) == "isinstance" and n.args and dotted(n.args[0]) == axes
                  for n in walk_local(f.node))
    planner_int = any(isinstance(n, ast.Call) and dotted(n.func) == "isinstance" and len(n.args) == 2
                      and "int" in C.unparse(n.args[1]) for n in walk_local(pf.node))
    if handled is not None:
        h, types = handled
        if {"TypeError", "Exception", "BaseException"} & set(types):
            r.ok(k, C.loc(f, h), f"an integer `axes` falls back to int(axes) under {types}")
        else:
            r.violation(k, C.loc(f, h), f"the fall-back `int(axes)` for an integer `axes` sits under `except "
                        f"{', '.join(types)}`, but subscripting an integer raises TypeError: tensordot(a, b, 2) — "
                        f"the documented default — raises instead of contracting"
                        + ("; the planner does handle isinstance(axes, int)" if planner_int else ""))
    elif is_inst:
        r.ok(k, f.loc, "integer `axes` recognised with isinstance")
    else:
        raise AnalysisError("tensordot: handling of an integer `axes` not recognised")
    # (b) normalisation of caller-supplied axis numbers
    k = ctx.key(pf, "C11-AXES", "negative")
    fl = ctx.flow(pf)
    uses = []
    for n in walk_local(pf.node):
        if isinstance(n, ast.Compare) and isinstance(n.ops[0], (ast.In, ast.NotIn)) and \
                isinstance(n.comparators[0], ast.Name):
            uses.append((n, n.comparators[0]))
        if isinstance(n, ast.Call) and isinstance(n.func, ast.Attribute) and n.func.attr == "index" and \
                isinstance(n.func.value, ast.Name):
            uses.append((n, n.func.value))
    checked = 0
    bad = None
    for n, nm in uses:
        at = fl.cfg.containing(n, pf.module.parents)
        deps = fl.deps(nm, at.id, "may")
        if not any(d[0] == "param" and d[1] == "axes" for d in deps):
            continue
        checked += 1
        # every definition reaching the use that comes from the caller must pass a normalisation
        defs = fl.defs_reaching(nm.id, at.id)
        for d in defs:
            v = d.value
            if v is None:
                continue
            txt = C.unparse(v, 200)
            from_caller = "axes" in txt and "range(" not in txt
            normal = "%" in txt or "normalize" in txt or "normalise" in txt
            if from_caller and not normal:
                # follow one level: `axes_a, axes_b = axes` after `axes = <normalised>`
                srcdefs = [x for x in fl.defs_reaching("axes", d.node)] if dotted(v) == "axes" else []
                if srcdefs and all(x.value is not None and ("%" in C.unparse(x.value, 200)) for x in srcdefs
                                   if x.kind != "param") and any(x.kind != "param" for x in srcdefs) \
                        and not any(x.kind == "param" for x in srcdefs):
                    continue
                bad = (n, nm.id)
    if checked == 0:
        raise AnalysisError("_parse_tensordot_axes_to_matmul: no positional comparison against caller axes found")
    if bad:
        r.violation(k, C.loc(pf, bad[0]), f"`{C.unparse(bad[0], 50)}` compares enumerated (non-negative) positions "
                    f"with the caller's `{bad[1]}` as given: a negative axis number (valid for the reference "
                    f"tensordot) never matches and the axis is treated as uncontracted")
    else:
        r.ok(k, pf.loc, f"caller axes are normalised before {checked} positional comparison(s)")
    return r


def rule_memo(ctx):
    from .c13 import rule_memo as src

    return C.reuse_rule(ctx, src, "C13-MEMO", "C11-MEMO", "the cached planners are pure",
                        lambda i: "contract.py" in i.construct, 3)


RULES = [rule_layout, rule_perm, rule_single, rule_axes, rule_memo]
