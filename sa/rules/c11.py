"""C11 — matmul-based einsum / tensordot (narrow structural clauses; values are not decided)."""

from __future__ import annotations

import ast

from ..engine.program import AnalysisError, dotted, walk_local
from ..engine.report import RuleResult
from . import common as C

PID = "C11"
EXPLANATION = (
    "Numerical agreement with the reference einsum/tensordot is NOT decided. Decided is the "
    "agreement of the layouts the planner fixes: (LAYOUT) the four index groups of "
    "_parse_eq_to_batch_matmul are identified by the conditions under which they are filled; "
    "every layout expression (prepared operands, reshape groups, produced output) is "
    "abstractly evaluated to a sequence of group symbols and checked against the matmul "
    "contract (B,M,K)x(B,K,N)->(B,M,N), with and without batch indices, size-1 output "
    "indices first as the output reshape places them; (PERM) every tuple handed to transpose "
    "has the direction source.index(ix) for ix in target; (SINGLE) the single-operand planner "
    "and its executor agree on stage order (diagonal, sum, transpose; each stage planned on "
    "the equation as rewritten by the previous one) and on the meaning of each returned "
    "element, matched by construction/usage kind; (AXES) tensordot's integer-axes fall-back "
    "catches TypeError, caller-supplied axis numbers are normalised before being compared "
    "with enumerated positions; (MEMO) the cached planners are pure. "
    "Later rounds added: "
    "(PERM permutation) a transposition-only plan needs equal lengths, not only equal "
    "index sets; (EXEC) the executor applies exactly the planned stages in plan order, "
    "both front ends forward the plan in order, plan positions mean the same on both "
    "sides (matched by construction and use); (PURE) the pure-multiplication plan "
    "reshapes both operands to the full output rank; (AXES equation) the equation "
    "tensordot is translated into. "
    'Round 7: (PERM) every function of contract.py is scanned, the map(x.index, y) spelling included. '
    "Rounds 7-8: (PLANDEP) every plan-returning exit of the planners derives from the equation's output; (DIAG) the layout bookkeeping after a diagonal, executed on sample layouts, follows numpy's advanced-indexing rule; (DEDUP) a repeated index is classified once per operand; (PRIMS) no conjugating or flattening primitive in the executor. "
    "Round 8 (engine E9): (SINGLEPLAN, PAIRPLAN) the planners' source is evaluated by the engine's mini-evaluator on every equation of a finite family and the returned plan is applied to abstract operands (axes as tuples of fused index letters) under numpy's rules; nothing of cotengra is imported or run, the verdict is about all members of the family. This is the edge of the technique family (interpretation of pure bookkeeping source on concrete arguments) and is stated as such in DESIGN section 2. "
    "Round 9 (E9): (TDOTPLAN) tensordot's equation for every axes form over ranks 0-3 is the reference's; (SINGLEPLAN) also evaluates the one-operand executor on abstract arrays. "
)
ASSUMPTIONS = ("matmul contracts the last axis of its first with the second-to-last axis of its "
               "second operand and broadcasts leading axes; transpose(x, p) puts source axis p[i] at i",)

PLAN = "_parse_eq_to_batch_matmul"


def _plan(ctx):
    return ctx.p.func(C.CONTRACT, PLAN)


def _groups(f):
    """list variable -> group symbol, from the conditions guarding `<list>.append(ix)`."""
    a_term, b_term, out = None, None, None
    # a_term, b_term = lhs.split(","); lhs, out = eq.split("->")
    for n in walk_local(f.node):
        if isinstance(n, ast.Assign) and isinstance(n.targets[0], ast.Tuple) and isinstance(n.value, ast.Call) \
                and isinstance(n.value.func, ast.Attribute) and n.value.func.attr == "split" and n.value.args \
                and isinstance(n.value.args[0], ast.Constant):
            names = [getattr(e, "id", None) for e in n.targets[0].elts]
            if n.value.args[0].value == "->" and len(names) == 2:
                out = names[1]
            elif n.value.args[0].value == "," and len(names) == 2:
                a_term, b_term = names
    C.require(a_term and b_term and out, f"{PLAN}: equation split not recognised")
    groups = {}
    for n in walk_local(f.node):
        if not (isinstance(n, ast.Call) and isinstance(n.func, ast.Attribute) and n.func.attr == "append"
                and isinstance(n.func.value, ast.Name) and n.args and isinstance(n.args[0], ast.Name)):
            continue
        st = C.enclosing_stmt(f, n)
        # which loop: over a_term or b_term
        loops = C.enclosing_loops(f, st)
        src = None
        for lp in loops:
            if isinstance(lp, ast.For):
                t = C.unparse(lp.iter)
                if a_term in t and b_term not in t:
                    src = "a"
                elif b_term in t and a_term not in t:
                    src = "b"
        if src is None:
            continue
        conds = {}
        for i, in_true in C.enclosing_ifs(f, st):
            t = i.test
            # elif chains: being in the else of `if ix in b_term` means not in b_term
            for c in ([t] if not isinstance(t, ast.BoolOp) else t.values):
                if isinstance(c, ast.Compare) and len(c.ops) == 1 and isinstance(c.ops[0], (ast.In, ast.NotIn)) \
                        and isinstance(c.comparators[0], ast.Name):
                    where = c.comparators[0].id
                    pos = isinstance(c.ops[0], ast.In)
                    val = pos if in_true else not pos
                    if where in (a_term, b_term, out):
                        conds.setdefault(where, val)
        other = b_term if src == "a" else a_term
        in_other, in_out = conds.get(other), conds.get(out)
        sym = None
        if in_other is True and in_out is True:
            sym = "BAT"
        elif in_other is True and in_out is False:
            sym = "CON"
        elif in_other is False and in_out is True:
            sym = "AK" if src == "a" else "BK"
        if sym is not None:
            groups[n.func.value.id] = sym
    return groups, a_term, b_term, out


def _seq(e, groups, env, single=None):
    """abstract sequence of group symbols of a layout expression, or None"""
    if isinstance(e, ast.Call) and isinstance(e.func, ast.Attribute) and e.func.attr == "join" and e.args:
        return _seq(e.args[0], groups, env, single)
    if isinstance(e, (ast.Tuple, ast.List)):
        out = []
        for x in e.elts:
            v = x.value if isinstance(x, ast.Starred) else x
            if isinstance(v, ast.Name):
                if v.id in groups:
                    out.append(groups[v.id])
                elif v.id == single:
                    out.append("S")
                elif v.id in env:
                    out.extend(env[v.id])
                else:
                    return None
            else:
                return None
        return out
    if isinstance(e, ast.Name) and e.id in env:
        return list(env[e.id])
    return None


def rule_layout(ctx):
    r = RuleResult("C11-LAYOUT", "the planner's layouts satisfy the matmul contract", 9)
    f = _plan(ctx)
    groups, a_term, b_term, out = _groups(f)
    have = set(groups.values())
    C.require(have == {"BAT", "CON", "AK", "BK"},
              f"{PLAN}: index groups recognised {sorted(groups.items())}; expected batch/contracted/kept-left/kept-right")
    # the size-1 output indices: a list comprehension over `out`
    single = None
    for n in walk_local(f.node):
        if isinstance(n, ast.Assign) and isinstance(n.targets[0], ast.Name) and isinstance(n.value, ast.ListComp):
            g = n.value.generators[0]
            if dotted(g.iter) == out and g.ifs:
                single = n.targets[0].id
    # collect layout assignments (possibly one per branch of `if <batch list>:`)
    bat_name = [k for k, v in groups.items() if v == "BAT"][0]
    layouts = {}  # name -> {branch: seq}
    for n in walk_local(f.node):
        if not (isinstance(n, ast.Assign) and len(n.targets) == 1 and isinstance(n.targets[0], ast.Name)):
            continue
        seq = _seq(n.value, groups, {}, single)
        if seq is None or not seq:
            continue
        branch = "any"
        for i, in_true in C.enclosing_ifs(f, n):
            if dotted(i.test) == bat_name:
                branch = "bat" if in_true else "nobat"
        layouts.setdefault(n.targets[0].id, {})[branch] = seq

    def find(pred):
        return [(k, v) for k, v in layouts.items() if pred(v)]

    flat = [(k, v["any"]) for k, v in layouts.items() if "any" in v]
    grouped = [(k, v) for k, v in layouts.items() if "bat" in v and "nobat" in v]
    key = lambda d: ctx.key(f, "C11-LAYOUT", d)  # noqa: E731

    # prepared operands
    da = [s for k, s in flat if "AK" in s and "BK" not in s and "S" not in s]
    db = [s for k, s in flat if "BK" in s and "AK" not in s and "S" not in s]
    prod = [s for k, s in flat if "AK" in s and "BK" in s]
    C.require(len(da) == 1 and len(db) == 1 and len(prod) == 1,
              f"{PLAN}: prepared-operand / produced-output layouts not recognised ({flat})")
    da, db, prod = da[0], db[0], prod[0]
    if da == ["BAT", "AK", "CON"]:
        r.ok(key("left"), f.loc, "left operand prepared as (batch, kept-left, contracted)")
    else:
        r.violation(key("left"), f.loc, f"the left operand is prepared as {da}: matmul contracts its last "
                    f"axis, which must be the contracted group, after (batch, kept-left)")
    if db == ["BAT", "CON", "BK"]:
        r.ok(key("right"), f.loc, "right operand prepared as (batch, contracted, kept-right)")
    else:
        r.violation(key("right"), f.loc, f"the right operand is prepared as {db}: matmul contracts its "
                    f"second-to-last axis; the layout must be (batch, contracted, kept-right)")
    # reshape groups
    lg = [v for k, v in grouped if "AK" in v["bat"] and "BK" not in v["bat"]]
    rg = [v for k, v in grouped if "BK" in v["bat"] and "AK" not in v["bat"]]
    og = [v for k, v in grouped if "BK" in v["bat"] and "AK" in v["bat"]]
    C.require(len(lg) == 1 and len(rg) == 1 and len(og) == 1, f"{PLAN}: reshape groups not recognised ({grouped})")
    lg, rg, og = lg[0], rg[0], og[0]
    for nm, g, want in (("left-groups", lg, da), ("right-groups", rg, db)):
        nb = [x for x in want if x != "BAT"]
        if g["bat"] == want and g["nobat"] == nb:
            r.ok(key(nm), f.loc, f"fused as {g['bat']} / without batch {g['nobat']}, the order the operand was prepared in")
        else:
            r.violation(key(nm), f.loc, f"the operand is prepared as {want} but fused as {g['bat']} "
                        f"(without batch: {g['nobat']}): the reshape groups axes that are not adjacent in that order")
    want_o = ["BAT", "AK", "BK"]
    if og["bat"] == want_o and og["nobat"] == want_o[1:]:
        r.ok(key("out-groups"), f.loc, "matmul result unfused as (batch, kept-left, kept-right)")
    else:
        r.violation(key("out-groups"), f.loc, f"the matmul result has axes (batch, kept-left, kept-right) but "
                    f"is unfused as {og['bat']} / {og['nobat']}")
    # produced output order vs the output reshape (size-1 axes first)
    shape_first = None
    for n in walk_local(f.node):
        if isinstance(n, ast.Assign) and isinstance(n.value, ast.BinOp) and isinstance(n.value.op, ast.Add):
            l, rr = n.value.left, n.value.right
            def ones(x):
                return isinstance(x, ast.BinOp) and isinstance(x.op, ast.Mult) and single is not None and \
                    single in C.unparse(x) and "1" in C.unparse(x)
            if ones(l):
                shape_first = True
            elif ones(rr):
                shape_first = False
    if single is None or shape_first is None:
        raise AnalysisError(f"{PLAN}: the placement of size-1 output axes in the output reshape was not recognised")
    want_p = (["S"] if shape_first else []) + want_o + ([] if shape_first else ["S"])
    if prod == want_p:
        r.ok(key("produced"), f.loc, f"produced order {prod} = size-1 axes {'first' if shape_first else 'last'} "
             f"(as the output reshape places them) + output groups")
    else:
        r.violation(key("produced"), f.loc, f"the final permutation assumes the matmul result is laid out as {prod}, "
                    f"but the output reshape produces {want_p}")
    # (seed C11_1) each reshape is planned under a guard that holds whenever the reshape is needed: a group
    # that is not exactly one index; for the output also whenever there are size-1 output axes to re-insert
    for n in walk_local(f.node):
        if not (isinstance(n, ast.If) and n.orelse and len(n.body) == 1 and isinstance(n.body[0], ast.Assign)
                and isinstance(n.orelse[0], ast.Assign) and isinstance(n.orelse[0].value, ast.Constant)
                and n.orelse[0].value.value is None and isinstance(n.body[0].targets[0], ast.Name)):
            continue
        val = n.body[0].value
        iters = {dotted(g.iter) for x in ast.walk(val) if isinstance(x, (ast.GeneratorExp, ast.ListComp))
                 for g in x.generators if isinstance(g.iter, ast.Name)}
        gname = [k_ for k_, v in grouped if k_ in iters]
        if not gname:
            continue
        gname = gname[0]
        uses_single = single is not None and single in {x.id for x in ast.walk(val) if isinstance(x, ast.Name)}
        t = n.test
        disj = t.values if isinstance(t, ast.BoolOp) and isinstance(t.op, ast.Or) else [t]

        def is_any_over(e, g_):
            return isinstance(e, ast.Call) and dotted(e.func) == "any" and e.args and \
                isinstance(e.args[0], (ast.GeneratorExp, ast.ListComp)) and \
                dotted(e.args[0].generators[0].iter) == g_ and not e.args[0].generators[0].ifs and \
                isinstance(e.args[0].elt, ast.Compare) and "len(" in C.unparse(e.args[0].elt) and \
                isinstance(e.args[0].elt.ops[0], (ast.NotEq, ast.Gt, ast.Lt))

        def is_single(e):
            if isinstance(e, ast.Name) and e.id == single:
                return True
            u = C.unparse(e)
            return single is not None and u in (f"len({single}) > 0", f"len({single}) != 0", f"len({single}) >= 1",
                                               f"bool({single})", f"{single} != []")
        kk = key(f"reshape-guard:{n.body[0].targets[0].id}")
        probs = []
        if not any(is_any_over(e, gname) for e in disj):
            probs.append(f"`{C.unparse(t, 70)}` has no disjunct 'some group of `{gname}` is not a single index' over "
                         f"the groups the shape is computed from")
        if uses_single and not any(is_single(e) for e in disj):
            probs.append(f"`{C.unparse(t, 70)}`: the size-1 output axes (`{single}`) are re-inserted by this reshape "
                         f"only; without `{single}` as a disjunct of its own the reshape is skipped when every group "
                         f"is a single index, and the result lacks those axes")
        if probs:
            r.violation(kk, C.loc(f, n), "; ".join(probs))
        else:
            r.ok(kk, C.loc(f, n), f"planned whenever a group of `{gname}` is not one index"
                 + (f" or `{single}` is non-empty" if uses_single else ""))
    return r


# ------------------------------------------------------------------ PERM

def rule_perm(ctx):
    r = RuleResult("C11-PERM", "transposition tuples have the direction source.index(ix) for ix in target", 4)
    m = ctx.p.module(C.CONTRACT)
    anchors = (PLAN, "_parse_einsum_single")
    for a_ in anchors:
        C.require(ctx.p.func(C.CONTRACT, a_) is not None, f"{a_} not found")
    # (seed C11_5) every function of the module is scanned, and the `tuple(map(x.index, y))` spelling is read too
    for f in sorted(m.all_funcs, key=lambda f_: (f_.name not in anchors, f_.node.lineno)):
        fname = f.name
        for n in walk_local(f.node):
            if not (isinstance(n, ast.Call) and dotted(n.func) == "tuple" and n.args):
                continue
            g = n.args[0]
            if isinstance(g, ast.GeneratorExp):
                e = g.elt
                if not (isinstance(e, ast.Call) and isinstance(e.func, ast.Attribute) and e.func.attr == "index"
                        and isinstance(e.func.value, ast.Name) and e.args and isinstance(e.args[0], ast.Name)):
                    continue
                gen = g.generators[0]
                if not (isinstance(gen.target, ast.Name) and gen.target.id == e.args[0].id
                        and isinstance(gen.iter, ast.Name)):
                    continue
                source, target = e.func.value.id, gen.iter.id
            elif isinstance(g, ast.Call) and dotted(g.func) == "map" and len(g.args) == 2 and isinstance(g.args[0], ast.Attribute) \
                    and g.args[0].attr in ("index", "find") and isinstance(g.args[0].value, ast.Name) and isinstance(g.args[1], ast.Name):
                source, target = g.args[0].value.id, g.args[1].id
                if _roles(f, source, target) == "unknown":
                    continue  # positions of a subset (axes to sum over, ...): not a layout change
            else:
                continue
            if fname == "_parse_einsum_single" and _roles(f, source, target) == "unknown":
                continue  # positions of a subset (the axes to sum); this planner is decided semantically by [C11-SINGLEPLAN]
            if fname not in anchors and _roles(f, source, target) == "unknown":
                r.exempt(ctx.key(f, "C11-PERM", f"{len(r.instances)}"), C.loc(f, n),
                         f"`{C.unparse(n, 50)}`: current and wanted layout not told apart here — not decided")
                continue
            st = C.enclosing_stmt(f, n)
            tgt = C.unparse(st.targets[0]) if isinstance(st, ast.Assign) else "?"
            k = ctx.key(f, "C11-PERM", f"{len(r.instances)}")
            # which is the layout the array *has* and which the one it *should get*
            role = _roles(f, source, target)
            if role == "ok":
                r.ok(k, C.loc(f, n), f"`{tgt}` = positions in the current layout `{source}` of the axes of the "
                     f"wanted layout `{target}`")
            elif role == "reversed":
                r.violation(k, C.loc(f, n), f"`{C.unparse(n, 60)}` lists, for each axis of the *current* layout, "
                            f"its position in the wanted one: that is the inverse permutation, right only for "
                            f"involutions (swaps)")
            else:
                raise AnalysisError(f"{f.qual}: cannot tell current from wanted layout in `{C.unparse(n, 60)}`")
            # (F21) a transposition is only a plan when the wanted layout is a *permutation* of the current one:
            # a test `set(current) == set(wanted)` also holds when the current layout repeats an index
            # (`aab` vs `ab`), where the tuple has fewer entries than the operand has axes
            sets_only = None
            for i_, in_true in C.enclosing_ifs(f, st):
                if not in_true:
                    continue
                conj = i_.test.values if isinstance(i_.test, ast.BoolOp) and isinstance(i_.test.op, ast.And) else [i_.test]
                txts = [C.unparse(c) for c in conj]
                pair = ({source, target})
                mentions = [t_ for t_ in txts if source in t_ and target in t_]
                if not mentions:
                    continue
                has_set = any(t_.replace(" ", "") in (f"set({source})==set({target})", f"set({target})==set({source})")
                              for t_ in txts)
                has_len = any(("len(" in t_ and source in t_ and target in t_ and "==" in t_) or
                              t_.replace(" ", "") in (f"sorted({source})==sorted({target})", f"sorted({target})==sorted({source})")
                              for t_ in txts)
                if has_set and not has_len:
                    sets_only = i_
            if sets_only is not None:
                k2 = ctx.key(f, "C11-PERM", f"permutation:{tgt}")
                # is the current layout known to be repeat-free?  (operand terms of the equation are not)
                r.violation(k2, C.loc(f, sets_only), f"`{tgt}` is planned as a bare transposition under "
                            f"`{C.unparse(sets_only.test, 60)}`: equal index *sets* do not make `{target}` a permutation of "
                            f"`{source}` — an operand with a repeated index (`aab` wanted as `ab`) gets a permutation tuple "
                            f"shorter than its rank and transpose raises; the lengths must agree too")
            elif any(in_true for _, in_true in C.enclosing_ifs(f, st)):
                k2 = ctx.key(f, "C11-PERM", f"permutation:{tgt}")
                r.ok(k2, C.loc(f, n), "the transposition-only plan is guarded by more than set equality (or by none: "
                     "layouts known repeat-free)")
    return r


def _roles(f, source, target):
    """'ok' if `source` is the layout the array currently has and `target` the wanted one."""
    params_like = set()
    wanted = set()
    for n in walk_local(f.node):
        # names split from the equation: the output is a wanted layout, input terms are current layouts
        if isinstance(n, ast.Assign) and isinstance(n.targets[0], ast.Tuple) and isinstance(n.value, ast.Call):
            fn = n.value.func
            names = [getattr(e, "id", None) for e in n.targets[0].elts]
            if isinstance(fn, ast.Attribute) and fn.attr == "split" and n.value.args and \
                    isinstance(n.value.args[0], ast.Constant):
                if n.value.args[0].value == "->":
                    wanted.add(names[-1])
                    params_like.add(names[0])
                elif n.value.args[0].value == ",":
                    params_like.update(names)
            elif dotted(fn) == "_sanitize_equation" and len(names) == 2:
                params_like.add(names[0])
                wanted.add(names[1])
    # layouts built by the planner itself ("desired_*": wanted; "*_produced": current)
    built_current, built_wanted = set(), set()
    for n in walk_local(f.node):
        if isinstance(n, ast.Assign) and isinstance(n.targets[0], ast.Name) and isinstance(n.value, ast.Call) \
                and isinstance(n.value.func, ast.Attribute) and n.value.func.attr == "join":
            nm = n.targets[0].id
            # a layout that is later compared with an input term is what that term should become
            cmp_with_term = any(isinstance(c, ast.Compare) and {C.unparse(c.left), C.unparse(c.comparators[0])} >= {nm}
                                and ({C.unparse(c.left), C.unparse(c.comparators[0])} & params_like)
                                for c in walk_local(f.node) if isinstance(c, ast.Compare))
            if cmp_with_term:
                built_wanted.add(nm)
            else:
                built_current.add(nm)
    cur = params_like | built_current
    want = wanted | built_wanted
    if source in cur and target in want:
        return "ok"
    if source in want and target in cur:
        return "reversed"
    return "unknown"


# ------------------------------------------------------------------ SINGLE

def rule_single(ctx):
    r = RuleResult("C11-SINGLE", "single-operand planner and executor agree on stages and their order", 3)
    pf = ctx.p.func(C.CONTRACT, "_parse_einsum_single")
    ef = ctx.p.func(C.CONTRACT, "_einsum_single")
    # planner: kinds of the returned elements
    rets = [n for n in walk_local(pf.node) if isinstance(n, ast.Return) and isinstance(n.value, ast.Tuple)]
    C.require(len(rets) == 1 and len(rets[0].value.elts) == 3, "_parse_einsum_single: expected one 3-tuple return")
    pnames = [getattr(e, "id", None) for e in rets[0].value.elts]
    C.require(all(pnames), "_parse_einsum_single: returned elements are not plain names")

    def pkind(nm):
        vals = [n.value for n in walk_local(pf.node) if isinstance(n, ast.Assign)
                and any(dotted(t) == nm for t in n.targets) and not (isinstance(n.value, ast.Constant))]
        txt = " ".join(C.unparse(v, 200) for v in vals)
        apps = [C.unparse(c.args[0], 100) for c in walk_local(pf.node) if isinstance(c, ast.Call)
                and isinstance(c.func, ast.Attribute) and c.func.attr == "append" and dotted(c.func.value) == nm and c.args]
        # diag: a list that receives selectors built with slice(None)
        for a in apps:
            if "slice(" in a:
                return "diag"
            d = [n.value for n in walk_local(pf.node) if isinstance(n, ast.Assign) and dotted(n.targets[0]) == a]
            if any("slice(" in C.unparse(v, 200) for v in d):
                return "diag"
        if ".index" in txt and "map(" in txt:
            return "sum"
        if ".index(" in txt and " for " in txt:
            return "perm"
        return "?"
    pk = [pkind(n) for n in pnames]
    # (round 8) the planner's side is decided semantically by [C11-SINGLEPLAN] — evaluation of the plan on layouts,
    # assuming the order (diag, sum, perm): when that holds, the pattern reading above is not needed and cannot be wrong
    plan_ok = not rule_singleplan(ctx).violations
    if plan_ok:
        pk = ["diag", "sum", "perm"]
    if plan_ok and ctx.__dict__.get("_c11_exec_evaluated"):
        # planner *and* executor were evaluated end to end on abstract arrays for the whole family: the pattern
        # reading below (which spelling of a stage it recognises) adds nothing and must not fail on another spelling
        for disc in ("positions", "executor-order", "planner-order"):
            r.ok(ctx.key(pf if disc != "executor-order" else ef, "C11-SINGLE", disc), pf.loc,
                 "decided by [C11-SINGLEPLAN]: planner and executor evaluated together on abstract arrays")
        return r
    # executor: unpack and usage kinds
    unp = [n for n in walk_local(ef.node) if isinstance(n, ast.Assign) and isinstance(n.targets[0], ast.Tuple)
           and isinstance(n.value, ast.Call) and dotted(n.value.func) == "_parse_einsum_single"]
    C.require(len(unp) == 1 and len(unp[0].targets[0].elts) == 3, "_einsum_single: unpacking of the plan not found")
    enames = [e.id for e in unp[0].targets[0].elts]

    def ekind(nm):
        for n in walk_local(ef.node):
            if isinstance(n, ast.For) and dotted(n.iter) == nm and any(
                    isinstance(x, ast.Subscript) for s in n.body for x in ast.walk(s)):
                return "diag"
            if isinstance(n, ast.Call) and dotted(n.func) == "do" and n.args and isinstance(n.args[0], ast.Constant) \
                    and any(dotted(a) == nm for a in n.args[1:]):
                return {"sum": "sum", "transpose": "perm"}.get(n.args[0].value, "?")
        return "?"
    ek = [ekind(n) for n in enames]
    k = ctx.key(pf, "C11-SINGLE", "positions")
    if "?" in pk or "?" in ek:
        raise AnalysisError(f"single-operand plan: element kinds not recognised (planner {pk}, executor {ek})")
    if pk == ek:
        r.ok(k, C.loc(pf, rets[0]), f"plan returned as {pk}, consumed as {ek}")
    else:
        r.violation(k, C.loc(pf, rets[0]), f"the planner returns {pk} but the executor consumes the tuple as {ek}")
    # stage order in the executor
    k = ctx.key(ef, "C11-SINGLE", "executor-order")
    order = []
    for st in ef.node.body:
        if isinstance(st, ast.If):
            for nm, kd in zip(enames, ek):
                if nm in {x.id for x in ast.walk(st.test) if isinstance(x, ast.Name)}:
                    order.append(kd)
    if order == ["diag", "sum", "perm"]:
        r.ok(k, ef.loc, "executes diagonal selection, then sums, then the transposition")
    else:
        r.violation(k, ef.loc, f"stages are executed in the order {order}; the plan is computed for diag → sum → perm "
                    f"(each on the equation as rewritten by the previous stage)")
    # stage order in the planner: each plan is computed after the previous stage rewrote the term
    k = ctx.key(pf, "C11-SINGLE", "planner-order")
    pos = {}
    for i, st in enumerate(pf.node.body):
        for nm, kd in zip(pnames, pk):
            if any(isinstance(x, ast.Assign) and any(dotted(t) == nm for t in x.targets)
                   and not isinstance(x.value, ast.Constant) for x in ast.walk(st)):
                pos.setdefault(kd, i)
    # the term is rewritten inside the diag and sum stages
    lhs = None
    for n in walk_local(pf.node):
        if isinstance(n, ast.Assign) and isinstance(n.targets[0], ast.Tuple) and isinstance(n.value, ast.Call) \
                and dotted(n.value.func) == "_sanitize_equation":
            lhs = n.targets[0].elts[0].id
    C.require(lhs is not None, "_parse_einsum_single: equation split not found")
    rewrites = {}
    for i, st in enumerate(pf.node.body):
        if any(isinstance(x, ast.Assign) and dotted(x.targets[0]) == lhs and isinstance(x.value, (ast.Call, ast.BinOp, ast.IfExp))
               and "replace" in C.unparse(x.value) for x in ast.walk(st)):
            rewrites.setdefault(i, True)
    good = (pos.get("diag", -1) < pos.get("sum", -1) < pos.get("perm", -1) and
            pos.get("diag") in rewrites and pos.get("sum") in rewrites) or plan_ok
    if good:
        r.ok(k, pf.loc, "sum axes are looked up after the diagonal rewrite, the permutation after the summed "
             "indices were removed")
    else:
        r.violation(k, pf.loc, f"stage plans are computed in the order {sorted(pos, key=pos.get)} / the term is not "
                    f"rewritten inside the diagonal and sum stages: later stages index axes that no longer exist")
    return r


# ------------------------------------------------------------------ AXES

def rule_axes(ctx):
    r = RuleResult("C11-AXES", "tensordot accepts every documented form of axes", 2)
    f = ctx.p.func(C.CONTRACT, "tensordot")
    pf = ctx.p.func(C.CONTRACT, "_parse_tensordot_axes_to_matmul")
    # (a) the scalar fall-back
    k = ctx.key(f, "C11-AXES", "int-fallback")
    axes = "axes"
    tries = [n for n in walk_local(f.node) if isinstance(n, ast.Try)]
    handled = None
    for t in tries:
        subs = [x for s in t.body for x in ast.walk(s) if isinstance(x, ast.Subscript) and dotted(x.value) == axes]
        if not subs:
            continue
        for h in t.handlers:
            conv = any(isinstance(x, ast.Call) and dotted(x.func) == "int" and x.args and dotted(x.args[0]) == axes
                       for s in h.body for x in ast.walk(s))
            if conv:
                types = []
                if h.type is None:
                    types = ["BaseException"]
                elif isinstance(h.type, ast.Tuple):
                    types = [dotted(e) for e in h.type.elts]
                else:
                    types = [dotted(h.type)]
                handled = (h, types)
    is_inst = any(isinstance(n, ast.Call) and dotted(n.func) == "isinstance" and n.args and dotted(n.args[0]) == axes
                  for n in walk_local(f.node))
    planner_int = any(isinstance(n, ast.Call) and dotted(n.func) == "isinstance" and len(n.args) == 2
                      and "int" in C.unparse(n.args[1]) for n in walk_local(pf.node))
    if handled is not None:
        h, types = handled
        if {"TypeError", "Exception", "BaseException"} & set(types):
            r.ok(k, C.loc(f, h), f"an integer `axes` falls back to int(axes) under {types}")
        else:
            r.violation(k, C.loc(f, h), f"the fall-back `int(axes)` for an integer `axes` sits under `except "
                        f"{', '.join(types)}`, but subscripting an integer raises TypeError: tensordot(a, b, 2) — "
                        f"the documented default — raises instead of contracting"
                        + ("; the planner does handle isinstance(axes, int)" if planner_int else ""))
    elif is_inst:
        r.ok(k, f.loc, "integer `axes` recognised with isinstance")
    else:
        raise AnalysisError("tensordot: handling of an integer `axes` not recognised")
    # (b) normalisation of caller-supplied axis numbers
    k = ctx.key(pf, "C11-AXES", "negative")
    fl = ctx.flow(pf)
    uses = []
    for n in walk_local(pf.node):
        if isinstance(n, ast.Compare) and isinstance(n.ops[0], (ast.In, ast.NotIn)) and \
                isinstance(n.comparators[0], ast.Name):
            uses.append((n, n.comparators[0]))
        if isinstance(n, ast.Call) and isinstance(n.func, ast.Attribute) and n.func.attr == "index" and \
                isinstance(n.func.value, ast.Name):
            uses.append((n, n.func.value))
    checked = 0
    bad = None
    for n, nm in uses:
        at = fl.cfg.containing(n, pf.module.parents)
        deps = fl.deps(nm, at.id, "may")
        if not any(d[0] == "param" and d[1] == "axes" for d in deps):
            continue
        checked += 1
        # every definition reaching the use that comes from the caller must pass a normalisation
        defs = fl.defs_reaching(nm.id, at.id)
        for d in defs:
            v = d.value
            if v is None:
                continue
            txt = C.unparse(v, 200)
            from_caller = "axes" in txt and "range(" not in txt
            normal = "%" in txt or "normalize" in txt or "normalise" in txt
            if from_caller and not normal:
                # follow one level: `axes_a, axes_b = axes` after `axes = <normalised>`
                srcdefs = [x for x in fl.defs_reaching("axes", d.node)] if dotted(v) == "axes" else []
                if srcdefs and all(x.value is not None and ("%" in C.unparse(x.value, 200)) for x in srcdefs
                                   if x.kind != "param") and any(x.kind != "param" for x in srcdefs) \
                        and not any(x.kind == "param" for x in srcdefs):
                    continue
                bad = (n, nm.id)
    if checked == 0:
        raise AnalysisError("_parse_tensordot_axes_to_matmul: no positional comparison against caller axes found")
    if bad:
        r.violation(k, C.loc(pf, bad[0]), f"`{C.unparse(bad[0], 50)}` compares enumerated (non-negative) positions "
                    f"with the caller's `{bad[1]}` as given: a negative axis number (valid for the reference "
                    f"tensordot) never matches and the axis is treated as uncontracted")
    else:
        r.ok(k, pf.loc, f"caller axes are normalised before {checked} positional comparison(s)")
    # (seed C11_3) the equation tensordot is translated into: the output starts as the left operand's symbols,
    # loses each contracted symbol *by value*, gains a fresh symbol per uncontracted right axis; the right
    # operand's symbol at a contracted axis is the left symbol at the paired axis
    k = ctx.key(pf, "C11-AXES", "equation")
    probs = []
    la = ctx.r.local_assignments(pf)
    js = [n for n in walk_local(pf.node) if isinstance(n, ast.JoinedStr)
          and len([v for v in n.values if isinstance(v, ast.FormattedValue)]) == 3]
    names = None
    for j in js:
        fv = [v.value for v in j.values if isinstance(v, ast.FormattedValue)]
        nm_ = []
        for e in fv:
            inner = e.args[0] if isinstance(e, ast.Call) and e.args else e
            nm_.append(dotted(inner))
        consts = [v.value for v in j.values if isinstance(v, ast.Constant)]
        if all(nm_) and consts == [",", "->"]:
            names = nm_
    if names is None:
        raise AnalysisError("_parse_tensordot_axes_to_matmul: the generated equation `left,right->out` was not recognised")
    ia, ib, io = names
    d_io = la.get(io, [])
    if not (len(d_io) == 1 and C.unparse(d_io[0]).replace(" ", "") in (f"{ia}.copy()", f"list({ia})", f"{ia}[:]")):
        probs.append(f"the output symbols do not start as a copy of the left operand's ({[C.unparse(v, 30) for v in d_io]})")
    for n in walk_local(pf.node):
        positional = None
        if isinstance(n, ast.Delete):
            for t in n.targets:
                if isinstance(t, ast.Subscript) and dotted(t.value) == io:
                    positional = n
        elif isinstance(n, ast.Call) and isinstance(n.func, ast.Attribute) and dotted(n.func.value) == io and \
                n.func.attr == "pop" and n.args:
            positional = n
        if positional is not None:
            lp_ = C.enclosing_loops(pf, C.enclosing_stmt(pf, positional))
            it = C.unparse(lp_[0].iter) if lp_ else ""
            if not ("sorted(" in it and ("reverse=True" in it or it.startswith("reversed("))):
                probs.append(f"`{C.unparse(positional, 40)}` removes an output symbol by *position* while iterating `{it}`: "
                             f"earlier removals shift later positions unless the axes are visited in descending order — "
                             f"wrong for caller axes that are not ascending (e.g. axes=((2, 0), (0, 1)))")
    rem = [n for n in walk_local(pf.node) if isinstance(n, ast.Call) and isinstance(n.func, ast.Attribute)
           and dotted(n.func.value) == io and n.func.attr == "remove"]
    by_pos = [p_ for p_ in probs if "by *position*" in p_]
    app_b = [n for n in walk_local(pf.node) if isinstance(n, ast.Call) and isinstance(n.func, ast.Attribute)
             and dotted(n.func.value) == ib and n.func.attr == "append"]
    loops_b = [n for n in pf.node.body if isinstance(n, ast.For) and "range(" in C.unparse(n.iter)]
    if not by_pos:
        if len(rem) != 1:
            probs.append(f"a contracted symbol is not removed from the output exactly once per contracted axis ({len(rem)} removal sites)")
        else:
            sym = dotted(rem[0].args[0])
            sd = la.get(sym, []) if sym else []
            from_left = [v for v in sd if isinstance(v, ast.Subscript) and dotted(v.value) == ia]
            if not from_left:
                probs.append(f"the symbol removed from the output (`{sym}`) is not looked up in the left operand's symbols")
            else:
                axa = dotted(from_left[0].slice)
                ad = la.get(axa, []) if axa else []
                paired = any(isinstance(v, ast.Subscript) and isinstance(v.slice, ast.Call) and
                             isinstance(v.slice.func, ast.Attribute) and v.slice.func.attr == "index" for v in ad)
                if not paired:
                    probs.append(f"the left axis `{axa}` is not the one paired with the right axis "
                                 f"(`axes_a[axes_b.index(axb)]`)")
            if app_b and loops_b:
                fresh = [v for v in la.get(dotted(app_b[0].args[0]) or "", []) if "next(" in C.unparse(v)]
                if not fresh:
                    probs.append("an uncontracted right axis does not get a fresh symbol")
    if len(app_b) != 1 or not loops_b or C.enclosing_ifs(pf, C.enclosing_stmt(pf, app_b[0])):
        probs.append("the right operand does not receive exactly one symbol per axis (append on every path of the loop)")
    if probs:
        r.violation(k, pf.loc, "; ".join(probs[:3]))
    else:
        r.ok(k, pf.loc, f"`{ia},{ib}->{io}`: output = left symbols minus contracted (by value) plus fresh right symbols; "
             f"right symbol at a contracted axis = left symbol at the paired axis")
    return r


def rule_memo(ctx):
    from .c13 import rule_memo as src

    return C.reuse_rule(ctx, src, "C13-MEMO", "C11-MEMO", "the cached planners are pure",
                        lambda i: "contract.py" in i.construct, 3)


def _plan_roles(ctx):
    """names of the 7 plan elements in the order the two-operand planner returns them"""
    f = _plan(ctx)
    rets = [n for n in f.node.body if isinstance(n, ast.Return) and isinstance(n.value, ast.Tuple)]
    C.require(rets and len(rets[-1].value.elts) == 7, f"{PLAN}: 7-element plan not found")
    names = [dotted(e) if not isinstance(e, ast.Constant) else "pure" for e in rets[-1].value.elts]
    C.require(all(names[:6]), f"{PLAN}: plan elements are not plain names")
    return names


def rule_exec(ctx):
    """The plan is a 7-tuple handed positionally from planner to executor through two front ends; the executor
    applies, per operand, the single-operand stage and then the reshape, each exactly when planned, multiplies
    (left, right), and finishes with reshape then transposition.  All of it is order and polarity of a dozen
    statements — invisible to tests that never plan a given stage."""
    r = RuleResult("C11-EXEC", "the executor applies exactly the planned stages, in plan order", 4)
    roles = _plan_roles(ctx)            # e.g. eq_a, eq_b, new_shape_a, new_shape_b, new_shape_ab, perm_ab, pure
    ex = ctx.p.func(C.CONTRACT, "_do_contraction_via_bmm")
    params = [a.arg for a in ex.node.args.args]
    C.require(len(params) >= 9, "_do_contraction_via_bmm: parameters not recognised")
    A, B = params[0], params[1]
    plan_params = params[2:9]
    # (1) every caller unpacks the plan into 7 names and forwards them in the same order
    for fname in ("einsum", "tensordot"):
        f = ctx.p.func(C.CONTRACT, fname)
        k = ctx.key(f, "C11-EXEC", "forward")
        unp = [n for n in walk_local(f.node) if isinstance(n, ast.Assign) and isinstance(n.targets[0], ast.Tuple)
               and len(n.targets[0].elts) == 7 and isinstance(n.value, ast.Call)
               and (dotted(n.value.func) or "").startswith("_parse_")]
        calls = [n for n in walk_local(f.node) if isinstance(n, ast.Call) and dotted(n.func) == "_do_contraction_via_bmm"]
        if not unp or not calls:
            star = calls and any(isinstance(a, ast.Starred) for a in calls[0].args)
            if star:
                r.ok(k, f.loc, "the plan is forwarded whole (*plan)")
                continue
            raise AnalysisError(f"{fname}: unpacking of the plan / executor call not recognised")
        got = [dotted(e) for e in unp[0].targets[0].elts]
        fwd = [dotted(a) for a in calls[0].args[2:9]]
        kw = {kx.arg: dotted(kx.value) for kx in calls[0].keywords}
        if kw:
            fwd = fwd + [kw.get(p_) for p_ in plan_params[len(fwd):]]
        if got == fwd:
            r.ok(k, C.loc(f, calls[0]), "the 7 plan elements reach the executor in the order the planner returned them")
        else:
            r.violation(k, C.loc(f, calls[0]), f"the plan is unpacked as {got} but handed to the executor as {fwd}: "
                        f"elements of the same kind (two equations, three shapes) are swapped silently")
    # (2) stages
    stages = []   # (guard name | None, positive?, op, array, arg, node)
    def visit(body, guard):
        for st in body:
            if isinstance(st, ast.If):
                t = st.test
                g = None
                if isinstance(t, ast.Compare) and len(t.ops) == 1 and C.unparse(t.comparators[0]) == "None" and \
                        isinstance(t.left, ast.Name):
                    g = (t.left.id, isinstance(t.ops[0], ast.IsNot), "notnone")
                elif isinstance(t, ast.Name):
                    g = (t.id, True, "truth")
                elif isinstance(t, ast.UnaryOp) and isinstance(t.op, ast.Not) and isinstance(t.operand, ast.Name):
                    g = (t.operand.id, False, "truth")
                elif isinstance(t, ast.Call) and dotted(t.func) == "isinstance":
                    g = guard  # refinement of the same stage
                else:
                    g = ("?" + C.unparse(t, 30), True, "?")
                visit(st.body, g if g is not None else guard)
                if st.orelse:
                    if isinstance(t, ast.Call) and dotted(t.func) == "isinstance":
                        visit(st.orelse, guard)
                    else:
                        visit(st.orelse, (g[0], not g[1], g[2]) if g else guard)
                continue
            val = None
            tgt = None
            if isinstance(st, ast.Assign) and isinstance(st.targets[0], ast.Name):
                val, tgt = st.value, st.targets[0].id
            elif isinstance(st, ast.Return):
                val, tgt = st.value, "return"
            if isinstance(val, ast.Call):
                fn = dotted(val.func)
                if fn == "do" and val.args and isinstance(val.args[0], ast.Constant):
                    stages.append((guard, val.args[0].value, tgt, [dotted(a) for a in val.args[1:]], st))
                elif fn and fn.startswith("_einsum"):
                    stages.append((guard, "einsum_single", tgt, [dotted(a) for a in val.args], st))
            elif isinstance(st, ast.Return) and isinstance(val, ast.Name):
                stages.append((guard, "return", tgt, [val.id], st))
    visit(ex.node.body, None)
    eqa, eqb, sha, shb, shab, perm, pure = plan_params
    k = ctx.key(ex, "C11-EXEC", "stages")
    probs = []

    def find(op, first_arg=None, plan_arg=None):
        return [i for i, (g, o, tgt, args, st) in enumerate(stages) if o == op and (first_arg is None or (args and args[0] == first_arg) or (len(args) > 1 and args[1] == first_arg and op == "einsum_single"))
                and (plan_arg is None or plan_arg in args)]
    order = []
    for arr, eq, sh in ((A, eqa, sha), (B, eqb, shb)):
        tr = find("transpose", arr, eq)
        es = [i for i in find("einsum_single") if stages[i][3][:2] == [eq, arr]]
        rs = find("reshape", arr, sh)
        for nm, ix, gname in (("transposition", tr, eq), ("single-operand einsum", es, eq), ("reshape", rs, sh)):
            if len(ix) != 1:
                probs.append(f"operand `{arr}`: expected one {nm} stage driven by `{gname}`, found {len(ix)}")
                continue
            g = stages[ix[0]][0]
            if g is None or g[0] != gname or not g[1]:
                probs.append(f"operand `{arr}`: the {nm} with `{gname}` runs under `{g}` instead of `{gname} is not None`")
            if stages[ix[0]][2] != arr:
                probs.append(f"operand `{arr}`: the result of the {nm} is bound to `{stages[ix[0]][2]}`")
        if len(tr) == 1 and len(es) == 1 and len(rs) == 1:
            if not (max(tr[0], es[0]) < rs[0]):
                probs.append(f"operand `{arr}`: the reshape comes before the single-operand stage it was planned after")
            order.append(rs[0])
    mul = find("multiply")
    mm = find("matmul")
    if len(mul) != 1 or stages[mul[0]][3][:2] != [A, B] or stages[mul[0]][0] is None or stages[mul[0]][0][0] != pure \
            or not stages[mul[0]][0][1] or stages[mul[0]][2] != "return":
        probs.append("the element-wise product (left, right) is not returned exactly under the pure-multiplication flag")
    if len(mm) != 1 or stages[mm[0]][3][:2] != [A, B]:
        probs.append("matmul is not applied to (left, right) in that order")
    elif stages[mm[0]][0] is not None and not (stages[mm[0]][0][0] == pure and not stages[mm[0]][0][1]):
        probs.append(f"matmul runs under `{stages[mm[0]][0]}`")
    if len(mm) == 1:
        ab = stages[mm[0]][2]
        rs, tp = find("reshape", ab, shab), find("transpose", ab, perm)
        for nm, ix, gname in (("output reshape", rs, shab), ("output transposition", tp, perm)):
            if len(ix) != 1:
                probs.append(f"expected one {nm} driven by `{gname}`, found {len(ix)}")
            else:
                g = stages[ix[0]][0]
                if g is None or g[0] != gname or not g[1]:
                    probs.append(f"the {nm} runs under `{g}` instead of `{gname} is not None`")
                if stages[ix[0]][2] != ab:
                    probs.append(f"the result of the {nm} is bound to `{stages[ix[0]][2]}`")
        if len(rs) == 1 and len(tp) == 1 and not (mm[0] < rs[0] < tp[0]):
            probs.append("after matmul the output is not reshaped first and transposed last (the permutation was planned "
                         "for the unfused axes)")
        if order and not all(o < mm[0] for o in order):
            probs.append("an operand is prepared after the matmul")
        rets = [i for i, sg in enumerate(stages) if sg[1] == "return" and sg[3] == [ab]]
        if not rets:
            probs.append("the prepared product is not what is returned")
    if probs:
        r.violation(k, ex.loc, "; ".join(probs[:4]))
    else:
        r.ok(k, ex.loc, "per operand: (transpose | single-operand einsum) then reshape, each iff planned; multiply / matmul on "
             "(left, right); output reshape then transposition, each iff planned")
    # (3) position k of the planner's return means the same thing as parameter k of the executor: the planner's
    # elements are classified by how they are *built*, the executor's parameters by how they are *used*
    k = ctx.key(ex, "C11-EXEC", "parameters")
    pf = _plan(ctx)
    groups, a_term, b_term, out = _groups(pf)
    la = ctx.r.local_assignments(pf)
    rets = [n for n in pf.node.body if isinstance(n, ast.Return) and isinstance(n.value, ast.Tuple)]
    built = []
    for e in rets[-1].value.elts[:6]:
        role = None
        for v in la.get(dotted(e) or "", []):
            if role in ("eqL", "eqR", "permO"):
                break
            if isinstance(v, ast.JoinedStr):
                fv = [dotted(x.value) for x in v.values if isinstance(x, ast.FormattedValue)]
                role = "eqL" if fv and fv[0] == a_term else "eqR" if fv and fv[0] == b_term else role
            gens = [x for x in ast.walk(v) if isinstance(x, (ast.GeneratorExp, ast.ListComp))]
            for g in gens:
                el = g.elt
                if isinstance(el, ast.Call) and isinstance(el.func, ast.Attribute) and el.func.attr == "index":
                    src_ = dotted(el.func.value)
                    role = "eqL" if src_ == a_term else "eqR" if src_ == b_term else (role or "permO")
            if role in ("eqL", "eqR", "permO"):
                continue
            for g in gens:
                itn = dotted(g.generators[0].iter)
                gdefs = la.get(itn or "", [])
                syms = set()
                for gd in gdefs:
                    sq = _seq(gd, groups, {}, None)
                    if sq:
                        syms |= set(sq)
                if syms:
                    role = "shapeL" if "AK" in syms and "BK" not in syms else \
                        "shapeR" if "BK" in syms and "AK" not in syms else "shapeO"
        built.append(role)
    used = []
    for prm in plan_params[:6]:
        role = None
        for g, op, tgt, args, st in stages:
            if prm not in args:
                continue
            arr = args[0] if op != "einsum_single" else (args[1] if len(args) > 1 else None)
            side = "L" if arr == A else "R" if arr == B else "O"
            if op in ("transpose", "einsum_single"):
                role = ("eq" + side) if side != "O" else "permO"
            elif op == "reshape":
                role = "shape" + side
        used.append(role)
    if None in built or None in used:
        raise AnalysisError(f"{PLAN}/executor: plan elements not classified (built {built}, used {used})")
    if built == used:
        r.ok(k, ex.loc, f"plan positions mean the same on both sides: {built}")
    else:
        r.violation(k, ex.loc, f"the planner returns its elements as {built} but the executor's parameters, by their use, are "
                    f"{used}: two elements of the same type travel in each other's place")
    return r


def rule_pure(ctx):
    """`_parse_eq_to_pure_multiplication`: both operands are reshaped to the *full* output rank (a 1 where the
    operand lacks the index) so that broadcasting aligns equal indices; the kept indices are listed in output
    order."""
    r = RuleResult("C11-PURE", "outer / Hadamard products align operands by output position", 3)
    f = ctx.p.func(C.CONTRACT, "_parse_eq_to_pure_multiplication")
    fl = ctx.flow(f)
    params = [a.arg for a in f.node.args.args]
    C.require(len(params) == 5, "_parse_eq_to_pure_multiplication: parameters not recognised")
    a_term, shape_a, b_term, shape_b, out = params
    loops = [n for n in f.node.body if isinstance(n, ast.For)]
    C.require(len(loops) == 1 and dotted(loops[0].iter) == out, "_parse_eq_to_pure_multiplication: loop over the output not found")
    lp = loops[0]
    ix = lp.target.id
    rets = [n for n in walk_local(f.node) if isinstance(n, ast.Return) and isinstance(n.value, ast.Tuple)]
    C.require(rets and len(rets[0].value.elts) == 7, "_parse_eq_to_pure_multiplication: plan not found")
    relts = rets[0].value.elts
    for term, shp, pos_shape, pos_eq, side in ((a_term, shape_a, 2, 0, "left"), (b_term, shape_b, 3, 1, "right")):
        k = ctx.key(f, "C11-PURE", side)
        probs = []
        ifs = [n for n in lp.body if isinstance(n, ast.If) and isinstance(n.test, ast.Compare) and
               dotted(n.test.left) == ix and dotted(n.test.comparators[0]) == term]
        if len(ifs) != 1 or not isinstance(ifs[0].test.ops[0], (ast.In, ast.NotIn)):
            raise AnalysisError(f"_parse_eq_to_pure_multiplication: membership branch for `{term}` not found")
        i_ = ifs[0]
        has, lacks = (i_.body, i_.orelse) if isinstance(i_.test.ops[0], ast.In) else (i_.orelse, i_.body)
        shape_name = dotted(relts[pos_shape])

        def appends(body, nm):
            return [c for st in body for c in ast.walk(st) if isinstance(c, ast.Call) and isinstance(c.func, ast.Attribute)
                    and c.func.attr == "append" and dotted(c.func.value) == nm]
        ah, al = appends(has, shape_name), appends(lacks, shape_name)
        if len(ah) != 1 or C.unparse(ah[0].args[0]).replace(" ", "") != f"{shp}[{term}.index({ix})]":
            probs.append(f"for an output index the operand carries, its own dimension `{shp}[{term}.index({ix})]` is not "
                         f"appended once ({[C.unparse(c) for c in ah]})")
        if len(al) != 1 or not (isinstance(al[0].args[0], ast.Constant) and al[0].args[0].value == 1):
            probs.append(f"for an output index the operand lacks, a 1 is not appended once ({[C.unparse(c) for c in al]})")
        # the shape reaches the plan unchanged: its only strong definition is the empty list
        la = [v for v in ctx.r.local_assignments(f).get(shape_name, [])]
        if len(la) != 1 or C.unparse(la[0]) != "[]":
            probs.append(f"`{shape_name}` is re-assigned ({[C.unparse(v, 30) for v in la]}) between the loop and the plan: "
                         f"without the full-rank reshape, broadcasting aligns *trailing* axes, not equal indices")
        # kept indices in output order
        desired = None
        for st in has:
            if isinstance(st, ast.AugAssign) and isinstance(st.op, ast.Add) and dotted(st.value) == ix and isinstance(st.target, ast.Name):
                desired = st.target.id
        eqn = relts[pos_eq]
        eq_defs = ctx.r.local_assignments(f).get(dotted(eqn), []) if isinstance(eqn, ast.Name) else []
        js = [v for v in eq_defs if isinstance(v, ast.JoinedStr)]
        if desired is None:
            probs.append("the operand's indices are not collected in output order")
        elif not js or [dotted(v.value) for v in js[0].values if isinstance(v, ast.FormattedValue)] != [term, desired]:
            probs.append(f"the single-operand stage is not `{term}->{desired}`")
        else:
            g = [i2 for i2, t in C.enclosing_ifs(f, [n for n in walk_local(f.node) if isinstance(n, ast.Assign) and n.value is js[0]][0])]
            t = g[0].test if g else None
            if not (isinstance(t, ast.Compare) and isinstance(t.ops[0], ast.NotEq) and {dotted(t.left), dotted(t.comparators[0])} == {term, desired}):
                probs.append(f"the single-operand stage is not planned exactly when `{desired} != {term}`")
        if probs:
            r.violation(k, C.loc(f, lp), "; ".join(probs))
        else:
            r.ok(k, C.loc(f, lp), f"{side} operand: one shape entry per output index (own dimension or 1), returned as built; "
                 f"prepared as `{term}->{desired}` iff they differ")
    k = ctx.key(f, "C11-PURE", "flags")
    tail = [C.unparse(e) for e in relts[4:]]
    if tail == ["None", "None", "True"]:
        r.ok(k, C.loc(f, rets[0]), "no output reshape / transposition; flagged as pure multiplication")
    else:
        r.violation(k, C.loc(f, rets[0]), f"the plan ends with {tail}, expected (None, None, True): the executor multiplies "
                    f"element-wise only under the flag and applies no output stage")
    return r


def rule_plandep(ctx):
    """(seed C11_6) A plan is computed from the equation and the shapes.  Every exit of a planner that hands back a
    plan hands back one whose elements derive (def-use) from the output part of the equation — the layout the result
    must have: a constant plan ('just multiply') returned early for a whole class of equations (a rank-0 operand, say)
    cannot transpose, sum or take a diagonal of the other operand, which the output may still require."""
    r = RuleResult("C11-PLANDEP", "every plan a planner returns derives from the equation's output", 3)
    for name in (PLAN, "_parse_einsum_single", "_parse_eq_to_pure_multiplication", "_parse_tensordot_axes_to_matmul"):
        f = ctx.p.func(C.CONTRACT, name)
        if f is None:
            continue
        fl = ctx.flow(f)
        # names carrying the wanted layout: the last target of a split on '->' / of _sanitize_equation, or the
        # parameter named like an output
        outs = set()
        for n in walk_local(f.node):
            if isinstance(n, ast.Assign) and isinstance(n.targets[0], ast.Tuple) and isinstance(n.value, ast.Call):
                fn = n.value.func
                names = [getattr(e, "id", None) for e in n.targets[0].elts]
                if (isinstance(fn, ast.Attribute) and fn.attr == "split" and n.value.args and isinstance(n.value.args[0], ast.Constant)
                        and n.value.args[0].value == "->") or dotted(fn) == "_sanitize_equation":
                    outs.add(names[-1])
        params = [a.arg for a in f.node.args.args]
        outs |= {p_ for p_ in params if p_ in ("out", "output")}
        wanted_params = {"eq"} if not outs else set()
        if name == "_parse_tensordot_axes_to_matmul":
            wanted_params = {params[0]}
        rets = [n for n in fl.returns() if n.ast.value is not None]
        C.require(rets, f"{name}: no return")
        for i, n in enumerate(sorted(rets, key=lambda x: x.ast.lineno)):
            k = ctx.key(f, "C11-PLANDEP", f"return#{i}")
            v = n.ast.value
            names_in = {x.id for x in ast.walk(v) if isinstance(x, ast.Name)}
            d = fl.deps(v, n.id, "may")
            dep_params = {x[1] for x in d if x[0] == "param"}
            # reaching definitions of the names in the plan, transitively, mention an output-carrying name
            seen, work, via_out = set(), list(names_in), bool(names_in & outs)
            while work and not via_out:
                nm = work.pop()
                if nm in seen:
                    continue
                seen.add(nm)
                for dd in fl.defs_reaching(nm, n.id):
                    if dd.value is None:
                        continue
                    inner = {x.id for x in ast.walk(dd.value) if isinstance(x, ast.Name)}
                    if inner & outs:
                        via_out = True
                    work += list(inner - seen)
            ok = via_out or bool(dep_params & wanted_params)
            if ok:
                r.ok(k, C.loc(f, n.ast), "the returned plan derives from the wanted layout")
            else:
                g = [C.unparse(i_.test, 50) for i_, t in C.enclosing_ifs(f, n.ast)]
                r.violation(k, C.loc(f, n.ast), f"`{C.unparse(n.ast, 70)}`" + (f" under `{g[0]}`" if g else "") + " does not derive from the "
                            "equation's output: for every equation taking this exit the same plan is executed, whatever order, sum or "
                            "diagonal the output asks of the operands")
    return r


class _NoStr(Exception):
    pass


def _streval(e, env):
    """evaluation of pure string / int expressions over sample values (used for the layout bookkeeping only)"""
    if isinstance(e, ast.Constant):
        return e.value
    if isinstance(e, ast.Name):
        if e.id in env:
            return env[e.id]
        raise _NoStr(e.id)
    if isinstance(e, ast.BinOp):
        a, b = _streval(e.left, env), _streval(e.right, env)
        if isinstance(e.op, ast.Add):
            return a + b
        if isinstance(e.op, ast.Mult):
            return a * b
        if isinstance(e.op, ast.Sub):
            return a - b
        raise _NoStr("op")
    if isinstance(e, ast.Compare) and len(e.ops) == 1:
        a, b = _streval(e.left, env), _streval(e.comparators[0], env)
        op = e.ops[0]
        table = {ast.In: lambda: a in b, ast.NotIn: lambda: a not in b, ast.Eq: lambda: a == b, ast.NotEq: lambda: a != b,
                 ast.Lt: lambda: a < b, ast.LtE: lambda: a <= b, ast.Gt: lambda: a > b, ast.GtE: lambda: a >= b}
        if type(op) in table:
            return table[type(op)]()
        raise _NoStr("cmp")
    if isinstance(e, ast.BoolOp):
        vals = [_streval(v, env) for v in e.values]
        return all(vals) if isinstance(e.op, ast.And) else any(vals)
    if isinstance(e, ast.UnaryOp) and isinstance(e.op, ast.Not):
        return not _streval(e.operand, env)
    if isinstance(e, ast.IfExp):
        return _streval(e.body if _streval(e.test, env) else e.orelse, env)
    if isinstance(e, ast.Subscript):
        v = _streval(e.value, env)
        sl = e.slice
        if isinstance(sl, ast.Slice):
            lo = _streval(sl.lower, env) if sl.lower is not None else None
            hi = _streval(sl.upper, env) if sl.upper is not None else None
            return v[lo:hi]
        return v[_streval(sl, env)]
    if isinstance(e, ast.Call) and isinstance(e.func, ast.Attribute) and e.func.attr in ("count", "replace", "index", "find", "rfind", "join", "startswith"):
        recv = _streval(e.func.value, env)
        args = [_streval(a, env) for a in e.args]
        return getattr(recv, e.func.attr)(*args)
    if isinstance(e, ast.Call) and isinstance(e.func, ast.Name) and e.func.id in ("len", "sorted", "min", "max", "str") and len(e.args) == 1:
        return {"len": len, "sorted": sorted, "min": min, "max": max, "str": str}[e.func.id](_streval(e.args[0], env))
    if isinstance(e, (ast.GeneratorExp, ast.ListComp)) and len(e.generators) == 1 and isinstance(e.generators[0].target, ast.Name):
        g = e.generators[0]
        out = []
        for v in _streval(g.iter, env):
            env2 = dict(env, **{g.target.id: v})
            if all(_streval(c, env2) for c in g.ifs):
                out.append(_streval(e.elt, env2))
        return out
    raise _NoStr(C.unparse(e, 40))


def _strexec(stmts, env):
    for st in stmts:
        if isinstance(st, ast.Assign) and len(st.targets) == 1 and isinstance(st.targets[0], ast.Name):
            env[st.targets[0].id] = _streval(st.value, env)
        elif isinstance(st, ast.AugAssign) and isinstance(st.target, ast.Name) and isinstance(st.op, ast.Add):
            env[st.target.id] = env[st.target.id] + _streval(st.value, env)
        elif isinstance(st, ast.If):
            _strexec(st.body if _streval(st.test, env) else st.orelse, env)
        elif isinstance(st, ast.Expr) and isinstance(st.value, ast.Constant):
            pass
        else:
            raise _NoStr(C.unparse(st, 40))
    return env


def rule_diag(ctx):
    """(seed C11_7) The single-operand planner takes diagonals by advanced indexing and keeps a string describing the
    axes of what results.  numpy's rule for where the fused axis lands is part of the reference: the advanced indices
    adjacent -> the axis stays at the position of the first; separated by a slice -> it moves to the *front*.  The
    statements that update the layout string after a diagonal are evaluated on sample layouts and compared with
    that rule."""
    r = RuleResult("C11-DIAG", "the layout after a diagonal follows numpy's advanced-indexing rule", 1)
    f = ctx.p.func(C.CONTRACT, "_parse_einsum_single")
    C.require(f is not None, "_parse_einsum_single not found")
    lhs = None
    for n in walk_local(f.node):
        if isinstance(n, ast.Assign) and isinstance(n.targets[0], ast.Tuple) and isinstance(n.value, ast.Call) and \
                dotted(n.value.func) == "_sanitize_equation":
            lhs = n.targets[0].elts[0].id
    C.require(lhs is not None, "_parse_einsum_single: layout string not found")
    loops = [n for n in walk_local(f.node) if isinstance(n, (ast.While, ast.For)) and
             any(isinstance(x, ast.Call) and isinstance(x.func, ast.Attribute) and x.func.attr == "append" and "sel" in C.unparse(x.func.value)
                 for x in ast.walk(n))]
    C.require(len(loops) == 1, "_parse_einsum_single: the diagonal loop not found")
    lp = loops[0]
    ixd = None
    if isinstance(lp, ast.For) and isinstance(lp.target, ast.Name):
        ixd = lp.target.id
    for st in lp.body:
        if isinstance(st, ast.Assign) and isinstance(st.targets[0], ast.Name) and isinstance(st.value, ast.Call) and \
                isinstance(st.value.func, ast.Attribute) and st.value.func.attr in ("pop", "popleft"):
            ixd = st.targets[0].id
    C.require(ixd is not None, "_parse_einsum_single: the index being fused not found")
    # the statements after the selector is recorded
    idx = max(i for i, st in enumerate(lp.body) if any(isinstance(x, ast.Call) and isinstance(x.func, ast.Attribute)
              and x.func.attr == "append" and "sel" in C.unparse(x.func.value) for x in ast.walk(st)))
    block = lp.body[idx + 1:]
    k = ctx.key(f, "C11-DIAG")
    samples = [("aab", "a"), ("baa", "a"), ("aba", "a"), ("abab", "a"), ("abab", "b"), ("abcb", "b"), ("aaa", "a"), ("abca", "a"),
               ("bcaad", "a"), ("abcabc", "c")]
    bad = None
    try:
        for lay, ch in samples:
            env = _strexec(block, {lhs: lay, ixd: ch})
            got = env[lhs]
            kk = lay.count(ch)
            want = lay.replace(ch * kk, ch) if ch * kk in lay else ch + lay.replace(ch, "")
            if got != want and bad is None:
                bad = (lay, ch, got, want)
    except _NoStr as e:
        raise AnalysisError(f"_parse_einsum_single: layout update not evaluable ({e})")
    if bad:
        r.violation(k, C.loc(f, block[0]) if block else f.loc, f"after taking the diagonal over `{bad[1]}` of an operand laid out `{bad[0]}` the planner goes on with "
                    f"`{bad[2]}`, numpy's result is laid out `{bad[3]}` (separated advanced indices put the fused axis first): the sums, "
                    "further diagonals and the final transposition are then computed for the wrong axes")
    else:
        r.ok(k, C.loc(f, block[0]), f"layout update agrees with the advanced-indexing rule on {len(samples)} sample layouts")
    return r


def rule_dedup(ctx):
    """(seed C11_8) An operand may repeat an index (`abb,bc`): each classification list of the pairwise planner gets
    an index once.  Every loop over a term that appends to such a list skips occurrences already seen (`if ix in
    seen: continue` before the appends, `seen.add(ix)` after), and the set is emptied or re-created between the
    loops over the two terms."""
    r = RuleResult("C11-DEDUP", "a repeated index is classified once per operand", 2)
    f = ctx.p.func(C.CONTRACT, PLAN)
    loops = [n for n in f.node.body if isinstance(n, ast.For) and isinstance(n.iter, ast.Call) and dotted(n.iter.func) == "zip"
             and any(isinstance(x, ast.Call) and isinstance(x.func, ast.Attribute) and x.func.attr == "append" for x in ast.walk(n))]
    C.require(len(loops) >= 2, f"{PLAN}: the loops over the two terms not found")
    prev_set = None
    for i, lp in enumerate(loops):
        k = ctx.key(f, "C11-DEDUP", f"term#{i}")
        ix = lp.target.elts[0].id if isinstance(lp.target, ast.Tuple) and isinstance(lp.target.elts[0], ast.Name) else None
        C.require(ix is not None, f"{PLAN}: loop target not recognised")
        first_append = min((x.lineno for x in ast.walk(lp) if isinstance(x, ast.Call) and isinstance(x.func, ast.Attribute)
                            and x.func.attr == "append" and not C.unparse(x.func.value).startswith("new_")), default=None)
        skips = [st for st in lp.body if isinstance(st, ast.If) and isinstance(st.test, ast.Compare) and isinstance(st.test.ops[0], ast.In)
                 and dotted(st.test.left) == ix and st.body and isinstance(st.body[-1], ast.Continue)]
        sname = dotted(skips[0].test.comparators[0]) if skips else None
        adds = [x for x in ast.walk(lp) if isinstance(x, ast.Call) and isinstance(x.func, ast.Attribute) and x.func.attr == "add"
                and dotted(x.func.value) == sname and x.args and dotted(x.args[0]) == ix] if sname else []
        ok = bool(skips) and bool(adds) and (first_append is None or skips[0].lineno < first_append)
        reset_ok = True
        if ok and prev_set is not None and prev_set[0] == sname:
            between = [st for st in f.node.body if prev_set[1].lineno < st.lineno < lp.lineno]
            reset_ok = any((isinstance(st, ast.Expr) and isinstance(st.value, ast.Call) and C.unparse(st.value.func) == f"{sname}.clear") or
                           (isinstance(st, ast.Assign) and any(dotted(t) == sname for t in st.targets)) for st in between)
        if not ok:
            r.violation(k, C.loc(f, lp), f"the loop over `{C.unparse(lp.iter, 40)}` appends to the classification lists without skipping occurrences "
                        f"of `{ix}` it has already seen: an operand that repeats an index gets it twice in a kept / batch group — reshape and "
                        "permutation are planned for an axis that does not exist")
        elif not reset_ok:
            r.violation(k, C.loc(f, lp), f"`{sname}` still holds the first term's indices when the second term is read: every shared index is "
                        "skipped there")
        else:
            r.ok(k, C.loc(f, skips[0]), f"occurrences after the first are skipped through `{sname}`")
        if sname:
            prev_set = (sname, lp)
    return r


_NOT_EINSUM = {"vdot": "conjugates its first operand (and flattens both)", "conj": "conjugates", "conjugate": "conjugates",
               "inner": "contracts the *last* axes whatever the equation says", "outer": "flattens its operands",
               "kron": "interleaves axes", "cross": "is not a contraction"}


def rule_prims(ctx):
    """(seed C01_8) einsum is linear in each operand and never conjugates; the executor may only use array primitives
    with that semantics.  No call in `contract.py` — `do("<name>", …)` or `xp.<name>(…)` — names a primitive that
    conjugates or flattens (`vdot`, `conj`, `inner`, `outer`, `kron`): such a shortcut is right for real arrays and
    wrong for complex ones."""
    r = RuleResult("C11-PRIMS", "the executor uses no conjugating / flattening primitive", 1)
    m = ctx.p.module(C.CONTRACT)
    n_do = 0
    bad = []
    for f in m.all_funcs:
        for c in (n for n in walk_local(f.node) if isinstance(n, ast.Call)):
            name = None
            if dotted(c.func) == "do" and c.args and isinstance(c.args[0], ast.Constant) and isinstance(c.args[0].value, str):
                name = c.args[0].value
                n_do += 1
            elif isinstance(c.func, ast.Attribute) and c.func.attr in _NOT_EINSUM:
                name = c.func.attr
            elif isinstance(c.func, ast.Name) and c.func.id in _NOT_EINSUM:
                name = c.func.id
            if name is not None and name.split(".")[-1] in _NOT_EINSUM:
                bad.append((f, c, name.split(".")[-1]))
    C.require(n_do >= 5, "contract.py: array primitives (`do(...)`) not found")
    if bad:
        for f, c, name in bad:
            r.violation(ctx.key(f, "C11-PRIMS", name), C.loc(f, c), f"`{C.unparse(c, 60)}`: `{name}` {_NOT_EINSUM[name]} — einsum does not; the step is "
                        "right for real arrays and wrong for complex ones (or for operands of rank above one)")
    else:
        r.ok(f"{C.CONTRACT}::C11-PRIMS", C.CONTRACT, f"{n_do} primitive calls: none conjugates or flattens")
        if not getattr(ctx, "_is_positive_example", False):
            r.note(C.positive_example(ctx, rule_prims, [(C.CONTRACT, None, ctx.p.sources[C.CONTRACT] +
                   "\n\ndef _c11_prims_positive_example(a, b, backend=None):\n    return do(\"vdot\", a, b, like=backend)\n")],
                   "_c11_prims_positive_example"))
    return r


class _Lay:
    """abstract array: the string of index letters of its axes (sizes from a table); supports what the one-operand
    executor does to an array — advanced-index diagonals, sums over axes, transposition"""

    def __init__(self, lay, size):
        self.lay, self.size = lay, size

    @property
    def shape(self):
        return tuple(self.size[c] for c in self.lay)

    def __getitem__(self, sel):
        from ..engine.minieval import SLICE_ALL
        sel = tuple(sel) if isinstance(sel, (tuple, list)) else (sel,)
        if len(sel) != len(self.lay):
            raise _PlanErr(f"a selector has {len(sel)} entries for the {len(self.lay)} axes of `{self.lay}`")
        adv = [i for i, s_ in enumerate(sel) if s_ != SLICE_ALL]
        if len(adv) < 2 or len({self.lay[i] for i in adv}) != 1:
            raise _PlanErr(f"a selector indexes axes {adv} of `{self.lay}`, which are not the occurrences of one repeated index")
        L = self.lay[adv[0]]
        if any(tuple(sel[i]) != tuple(range(self.size[L])) for i in adv) or len(adv) != self.lay.count(L):
            raise _PlanErr(f"a selector does not take the full diagonal over `{L}` of `{self.lay}`")
        rest = "".join(c for i, c in enumerate(self.lay) if i not in adv)
        if adv == list(range(adv[0], adv[0] + len(adv))):
            return _Lay(self.lay[:adv[0]] + L + self.lay[adv[0] + len(adv):], self.size)
        return _Lay(L + rest, self.size)

    def sum(self, axes):
        ax = [axes] if isinstance(axes, int) else list(axes)
        ax = [a_ + len(self.lay) if a_ < 0 else a_ for a_ in ax]
        if len(set(ax)) != len(ax) or any(not (0 <= a_ < len(self.lay)) for a_ in ax):
            raise _PlanErr(f"sum over {tuple(ax)} of the {len(self.lay)} axes of `{self.lay}`")
        return _Lay("".join(c for i, c in enumerate(self.lay) if i not in ax), self.size)

    def transpose(self, perm):
        pm = list(perm)
        if sorted(pm) != list(range(len(self.lay))):
            raise _PlanErr(f"{tuple(pm)} is not a permutation of the axes of `{self.lay}`")
        return _Lay("".join(self.lay[i] for i in pm), self.size)


def _abstract_do(name, *args, **kw):
    if name == "einsum":
        raise ImportError("no einsum in the abstract backend")  # forces the library's own fallback, as a backend without einsum does
    x = args[0]
    if name == "sum":
        return x.sum(args[1] if len(args) > 1 else kw.get("axis"))
    if name == "transpose":
        return x.transpose(args[1] if len(args) > 1 else kw.get("axes"))
    raise _PlanErr(f"the one-operand executor calls the primitive `{name}`")


def rule_singleplan(ctx):
    """(sensitivity map, round 8: the suite never reaches this planner) The single-operand planner is a pure function
    of (equation, shape).  Its source is evaluated — by the engine's mini-evaluator, nothing is imported — on every
    one-operand equation over three symbols up to rank four with every explicit output, and the plan it returns is
    *applied to the layout string* under numpy's rules (diagonal by advanced indexing: adjacent → in place, separated
    → to the front; sum removes positions; transpose permutes): the final layout must be the output, every selector
    must cover the current rank and use the repeated letter's range, every axis tuple must be in range."""
    import itertools

    from ..engine.minieval import Mini, NoEval, Raised, SLICE_ALL

    r = RuleResult("C11-SINGLEPLAN", "the single-operand plan, applied to the layout, yields the output", 1)
    m = ctx.p.module(C.CONTRACT)
    f = ctx.p.func(C.CONTRACT, "_parse_einsum_single")
    helpers = {g.name: g.node for g in m.all_funcs if g.cls is None and g.name in ("_sanitize_equation",)}
    C.require(f is not None and "_sanitize_equation" in helpers, "_parse_einsum_single / _sanitize_equation not found")
    size = {"a": 2, "b": 3, "c": 4}
    k = ctx.key(f, "C11-SINGLEPLAN")
    ef = ctx.p.func(C.CONTRACT, "_einsum_single")
    exec_funcs = dict(helpers, _parse_einsum_single=f.node) if ef is not None else None
    n_eq = 0
    bad = None
    try:
        for rank in range(0, 5):
            for term in itertools.product("abc", repeat=rank):
                letters = sorted(set(term))
                for kk in range(len(letters) + 1):
                    for sub in itertools.combinations(letters, kk):
                        for out in itertools.permutations(sub):
                            if rank == 4 and len(out) > 2 and out != tuple(sorted(out)):
                                continue  # keep the family small: all orders up to rank 3, sorted + pairs at rank 4
                            eq = "".join(term) + "->" + "".join(out)
                            shape = tuple(size[c] for c in term)
                            n_eq += 1
                            try:
                                plan = Mini(helpers, budget=20000).call(f.node, [eq, shape])
                            except Raised as e:
                                bad = bad or (eq, f"the planner raises ({e.text})")
                                continue
                            except NoEval:
                                raise
                            except Exception as e:  # an operation of the evaluated source failed (e.g. str.index)
                                bad = bad or (eq, f"the planner raises ({type(e).__name__}: {e})")
                                continue
                            why = _apply_single_plan(plan, "".join(term), "".join(out), size, SLICE_ALL)
                            if why and bad is None:
                                bad = (eq, why)
                            # the executor itself, on an abstract array (a backend without einsum: the fallback path)
                            if exec_funcs is not None and not why:
                                try:
                                    res = Mini(exec_funcs, budget=30000, externals={"do": _abstract_do, "shape": lambda x_: x_.shape}).call(
                                        ef.node, [eq, _Lay("".join(term), size)])
                                    if not isinstance(res, _Lay) or res.lay != "".join(out):
                                        bad = bad or (eq, f"the executor turns the layout `{''.join(term)}` into `{getattr(res, 'lay', res)}`")
                                except _PlanErr as e:
                                    bad = bad or (eq, f"the executor asks for {e}")
                                except Raised as e:
                                    bad = bad or (eq, f"the executor raises ({e.text})")
                                except NoEval:
                                    exec_funcs = None  # executor outside the fragment: the structural stage guards below decide it
                                except Exception as e:
                                    bad = bad or (eq, f"the executor raises ({type(e).__name__}: {e})")
        # implicit output: the sorted indices that appear exactly once
        for term in ("ab", "ba", "aab", "abb", "cab", "abcb", "bca", "aa", "a", ""):
            n_eq += 1
            want = "".join(c for c in sorted(set(term)) if term.count(c) == 1)
            try:
                plan = Mini(helpers, budget=20000).call(f.node, [term, tuple(size[c] for c in term)])
            except Raised as e:
                bad = bad or (term, f"the planner raises ({e.text})")
                continue
            except NoEval:
                raise
            except Exception as e:
                bad = bad or (term, f"the planner raises ({type(e).__name__}: {e})")
                continue
            why = _apply_single_plan(plan, term, want, size, SLICE_ALL)
            if why and bad is None:
                bad = (term + " (implicit output)", why)
    except NoEval as e:
        raise AnalysisError(f"_parse_einsum_single: not evaluable by the mini-evaluator ({e})")
    ctx.__dict__["_c11_exec_evaluated"] = exec_funcs is not None
    # the executor applies each stage exactly when the plan has one
    ef = ctx.p.func(C.CONTRACT, "_einsum_single")
    pol = []
    for st in ef.node.body:
        if isinstance(st, ast.If) and isinstance(st.test, ast.Compare) and len(st.test.ops) == 1 and \
                isinstance(st.test.comparators[0], ast.Constant) and st.test.comparators[0].value is None:
            pol.append((st, isinstance(st.test.ops[0], ast.IsNot)))
    if exec_funcs is None:
        C.require(len(pol) >= 3, "_einsum_single: the three stage guards not found")
    wrong = [st for st, ok_ in pol if not ok_] if exec_funcs is None else []
    if wrong and bad is None:
        bad = ("any equation", f"the executor runs a stage under `{C.unparse(wrong[0].test)}` — when the plan has none")
    if bad:
        r.violation(k, f.loc, f"for `{bad[0]}` {bad[1]}: the library's own one-operand einsum (used when the array library has none) "
                    "returns another array than the reference")
    else:
        r.ok(k, f.loc, f"{n_eq} one-operand equations: the returned plan turns the operand's layout into the output")
    return r


def _apply_single_plan(plan, lay, out, size, SLICE_ALL):
    try:
        return _apply_single_plan_(plan, lay, out, size, SLICE_ALL)
    except (TypeError, IndexError, KeyError, ValueError) as e:
        return f"the plan is malformed ({type(e).__name__}: {e})"


def _apply_single_plan_(plan, lay, out, size, SLICE_ALL):
    if not (isinstance(plan, tuple) and len(plan) == 3):
        return "the plan is not (diagonals, sum axes, permutation)"
    diag, sum_axes, perm = plan
    for sel in diag or ():
        sel = tuple(sel)
        if len(sel) != len(lay):
            return f"a selector has {len(sel)} entries for the {len(lay)} axes of `{lay}`"
        adv = [i for i, s_ in enumerate(sel) if s_ != SLICE_ALL]
        if len(adv) < 2 or len({lay[i] for i in adv}) != 1:
            return f"a selector indexes axes {adv} of `{lay}`, which are not the occurrences of one repeated index"
        L = lay[adv[0]]
        if any(tuple(sel[i]) != tuple(range(size[L])) for i in adv) or len(adv) != lay.count(L):
            return f"a selector does not take the full diagonal over `{L}` of `{lay}`"
        rest = "".join(c for i, c in enumerate(lay) if i not in adv)
        if adv == list(range(adv[0], adv[0] + len(adv))):
            lay = lay[:adv[0]] + L + lay[adv[0] + len(adv):]
        else:
            lay = L + rest
    if sum_axes is not None:
        ax = list(sum_axes)
        if len(set(ax)) != len(ax) or any(not (0 <= a_ < len(lay)) for a_ in ax):
            return f"sum axes {tuple(ax)} are not distinct axes of `{lay}`"
        lay = "".join(c for i, c in enumerate(lay) if i not in ax)
    if perm is not None:
        pm = list(perm)
        if sorted(pm) != list(range(len(lay))):
            return f"{tuple(pm)} is not a permutation of the axes of `{lay}`"
        lay = "".join(lay[i] for i in pm)
    if lay != out:
        return f"the plan leaves the layout `{lay}`, the output is `{out}`"
    return None


class _PlanErr(Exception):
    pass


def _apply_pair_plan(plan, a_term, b_term, out, size):
    """Application of a pairwise plan to *abstract* operands: an operand is a list of axes, an axis the tuple of the
    (non-trivial) index letters fused into it.  Follows `_do_contraction_via_bmm` stage by stage with numpy's rules
    for transpose / reshape / matmul / broadcasting multiply; returns None if the result's axes are the output's."""
    if not (isinstance(plan, tuple) and len(plan) == 7):
        return "the plan is not a 7-tuple"
    eq_a, eq_b, sh_a, sh_b, sh_ab, perm_ab, pure = plan

    def axes_of(letters):
        return [(L,) if size[L] > 1 else () for L in letters]

    def pre(eq_x, term, other):
        if eq_x is None:
            return axes_of(term)
        if isinstance(eq_x, tuple):
            if sorted(eq_x) != list(range(len(term))):
                raise _PlanErr(f"{eq_x} is not a permutation of the axes of `{term}`")
            return axes_of([term[i] for i in eq_x])
        lhs, rhs = eq_x.split("->")
        if lhs != term:
            raise _PlanErr(f"the preparing equation `{eq_x}` does not start from the operand's own term `{term}`")
        if len(set(rhs)) != len(rhs) or not set(rhs) <= set(lhs):
            raise _PlanErr(f"the preparing equation `{eq_x}` is not a reduction of `{term}`")
        for L in set(lhs) - set(rhs):
            if size[L] > 1 and (L in other or L in out):
                raise _PlanErr(f"`{eq_x}` sums `{L}` on one operand alone although the other operand or the output carries it")
        return axes_of(rhs)

    def reshape(axes, shape, what):
        if shape is None:
            return axes
        seq = [L for ax in axes for L in ax]
        new, i = [], 0
        for t in shape:
            grp, prod = [], 1
            while prod < t:
                if i >= len(seq):
                    raise _PlanErr(f"{what}: shape {tuple(shape)} does not fit the operand's {len(seq)} non-trivial axes")
                grp.append(seq[i])
                prod *= size[seq[i]]
                i += 1
            if prod != t:
                raise _PlanErr(f"{what}: shape {tuple(shape)} splits an index")
            new.append(tuple(grp))
        if i != len(seq):
            raise _PlanErr(f"{what}: shape {tuple(shape)} has fewer elements than the operand")
        return new

    def uniq(axes, what):
        ls = [L for ax in axes for L in ax]
        if len(set(ls)) != len(ls):
            raise _PlanErr(f"{what} still carries a repeated index on two axes ({ls})")

    def bcast(x, y, what):
        n = max(len(x), len(y))
        x = [()] * (n - len(x)) + list(x)
        y = [()] * (n - len(y)) + list(y)
        outp = []
        for u, v in zip(x, y):
            if u == v or not v:
                outp.append(u)
            elif not u:
                outp.append(v)
            else:
                raise _PlanErr(f"{what}: axes {u} and {v} are paired")
        return outp
    try:
        A = pre(eq_a, a_term, b_term)
        B = pre(eq_b, b_term, a_term)
        uniq(A, "the left operand")
        uniq(B, "the right operand")
        A = reshape(A, sh_a, "left reshape")
        B = reshape(B, sh_b, "right reshape")
        if pure:
            AB = bcast(A, B, "multiply")
        else:
            if not A or not B:
                raise _PlanErr("matmul of a rank-0 operand")
            da = len(A) == 1
            db = len(B) == 1
            A2 = [()] + A if da else A
            B2 = B + [()] if db else B
            if A2[-1] != B2[-2]:
                raise _PlanErr(f"matmul pairs the axes {A2[-1]} and {B2[-2]}")
            for L in A2[-1]:
                if L in out:
                    raise _PlanErr(f"`{L}` is contracted although the output keeps it")
            AB = bcast(A2[:-2], B2[:-2], "matmul batch") + ([] if da else [A2[-2]]) + ([] if db else [B2[-1]])
        AB = reshape(AB, sh_ab, "output reshape")
        if perm_ab is not None:
            if sorted(perm_ab) != list(range(len(AB))):
                raise _PlanErr(f"{tuple(perm_ab)} is not a permutation of the {len(AB)} axes produced")
            AB = [AB[i] for i in perm_ab]
    except _PlanErr as e:
        return str(e)
    except (TypeError, IndexError, KeyError, ValueError, AttributeError) as e:
        return f"the plan is malformed ({type(e).__name__}: {e})"
    want = axes_of(out)
    if AB != want:
        return f"the plan produces the axes {AB}, the output `{out}` is {want}"
    return None


def rule_pairplan(ctx):
    """(sensitivity map, round 8: the suite never passes a size-1 dimension, a repeated index or an index summed on one
    side to this planner) The pairwise planner is a pure function of (equation, shapes).  Its source — with the
    pure-multiplication planner it delegates to — is evaluated by the engine's mini-evaluator on every two-operand
    equation over three symbols with operand rank up to three, several outputs each, under size assignments with
    and without a size-1 index; the returned plan is then *applied to abstract operands* (axes as tuples of fused index
    letters) stage by stage as the executor does, with numpy's rules for transpose, reshape, matmul and broadcasting.
    The axes produced must be the output's; no index is summed on one operand alone unless nothing else carries
    it; matmul pairs identical groups; no repeated index survives the preparation."""
    import itertools

    from ..engine.minieval import Mini, NoEval, Raised

    r = RuleResult("C11-PAIRPLAN", "the pairwise plan, applied to abstract operands, yields the output", 1)
    m = ctx.p.module(C.CONTRACT)
    f = ctx.p.func(C.CONTRACT, PLAN)
    helpers = {g.name: g.node for g in m.all_funcs if g.cls is None and g.name in
               ("_sanitize_equation", "_parse_eq_to_pure_multiplication", PLAN)}
    C.require(len(helpers) == 3, "pairwise planners not found")
    k = ctx.key(f, "C11-PAIRPLAN")
    terms = [t for rk in range(0, 4) for t in itertools.product("abc", repeat=rk)]
    assignments = [{"a": 2, "b": 3, "c": 5}, {"a": 2, "b": 1, "c": 3}, {"a": 1, "b": 2, "c": 1}]
    step = 1 if ctx.tier == "thorough" else 8
    n_eq = 0
    bad = None
    idx = 0
    try:
        for ta in terms:
            for tb in terms:
                union = sorted(set(ta) | set(tb))
                once = [L for L in union if not (L in ta and L in tb)]
                outs = {tuple(union), tuple(reversed(union)), tuple(once), tuple(reversed(once)), (), tuple(L for L in union if L in ta and L in tb)}
                for out in sorted(outs):
                    idx += 1
                    if idx % step:
                        continue
                    for size in assignments:
                        eq = "".join(ta) + "," + "".join(tb) + "->" + "".join(out)
                        sa, sb = tuple(size[c] for c in ta), tuple(size[c] for c in tb)
                        n_eq += 1
                        try:
                            plan = Mini(helpers, budget=60000).call(f.node, [eq, sa, sb])
                        except Raised as e:
                            bad = bad or (eq, size, f"the planner raises ({e.text})")
                            continue
                        except NoEval:
                            raise
                        except Exception as e:
                            bad = bad or (eq, size, f"the planner raises ({type(e).__name__}: {e})")
                            continue
                        why = _apply_pair_plan(plan, "".join(ta), "".join(tb), "".join(out), size)
                        if why and bad is None:
                            bad = (eq, size, why)
        # four symbols (a size-1 index next to one kept index per operand and a contracted one needs four)
        terms3 = [t for rk in range(1, 4) for t in itertools.product("abcd", repeat=rk)]
        terms2 = [t for rk in range(1, 3) for t in itertools.product("abcd", repeat=rk)]
        assignments4 = [{"a": 1, "b": 2, "c": 3, "d": 5}, {"a": 2, "b": 3, "c": 1, "d": 5}, {"a": 2, "b": 3, "c": 5, "d": 1}, {"a": 2, "b": 3, "c": 5, "d": 7}]
        for ta in terms3:
            for tb in terms2:
                union = sorted(set(ta) | set(tb))
                if len(union) != 4:
                    continue
                once = [L for L in union if not (L in ta and L in tb)]
                for out in sorted({tuple(union), tuple(once), tuple(reversed(once))}):
                    idx += 1
                    if idx % step:
                        continue
                    for size in assignments4:
                        eq = "".join(ta) + "," + "".join(tb) + "->" + "".join(out)
                        n_eq += 1
                        try:
                            plan = Mini(helpers, budget=60000).call(f.node, [eq, tuple(size[c] for c in ta), tuple(size[c] for c in tb)])
                        except Raised as e:
                            bad = bad or (eq, size, f"the planner raises ({e.text})")
                            continue
                        except NoEval:
                            raise
                        except Exception as e:
                            bad = bad or (eq, size, f"the planner raises ({type(e).__name__}: {e})")
                            continue
                        why = _apply_pair_plan(plan, "".join(ta), "".join(tb), "".join(out), size)
                        if why and bad is None:
                            bad = (eq, size, why)
    except NoEval as e:
        raise AnalysisError(f"{PLAN}: not evaluable by the mini-evaluator ({e})")
    if bad:
        r.violation(k, f.loc, f"for `{bad[0]}` with sizes {bad[1]}: {bad[2]} — the library's pairwise einsum returns another array than the reference")
    else:
        r.ok(k, f.loc, f"{n_eq} (equation, sizes) cases: the plan turns the abstract operands into the output's axes")
    return r


def rule_tdotplan(ctx):
    """(engine E9; seed C11_9) `_parse_tensordot_axes_to_matmul` turns an axes specification into an equation for the
    pairwise planner (which [C11-PAIRPLAN] decides).  Its source is evaluated — with the planner replaced by a stub that
    hands the equation back — on every specification over operands of rank 0-3: the integer form n (last n axes of a
    with the first n of b, *in order*) and explicit pairs of up to two axes in every order, positive and negative;
    the equation must be tensordot's: one symbol per axis of a, b's i-th listed axis carrying the symbol of a's i-th
    listed axis, fresh symbols elsewhere, output = a's free axes then b's free axes."""
    import itertools

    from ..engine.minieval import Mini, NoEval, Raised

    r = RuleResult("C11-TDOTPLAN", "tensordot's equation is the reference's for every axes form (bounded ranks)", 1)
    f = ctx.p.func(C.CONTRACT, "_parse_tensordot_axes_to_matmul")
    C.require(f is not None, "_parse_tensordot_axes_to_matmul not found")
    k = ctx.key(f, "C11-TDOTPLAN")
    primes = [2, 3, 5, 7, 11, 13]
    bad = None
    n = 0

    def run(axes, sa, sb):
        ext = {"gen_nice_inds": lambda: iter("abcdefghijklmnopqrstuvwxyz"), "_parse_eq_to_batch_matmul": lambda eq, x, y: ("EQ", eq)}
        return Mini({}, budget=20000, externals=ext).call(f.node, [axes, sa, sb])
    try:
        for na in range(0, 4):
            for nb in range(0, 4):
                specs = []
                for n_int in range(0, min(na, nb) + 1):
                    specs.append((n_int, tuple(range(na - n_int, na)), tuple(range(n_int))))
                for kk in (1, 2):
                    for pa in itertools.permutations(range(na), kk):
                        for pb in itertools.permutations(range(nb), kk):
                            specs.append(((pa, pb), pa, pb))
                            specs.append(((tuple(x - na for x in pa), tuple(x - nb for x in pb)), pa, pb))
                for axes, pa, pb in specs:
                    sa = tuple(primes[i] for i in range(na))
                    sb = [None] * nb
                    for i_, j_ in zip(pa, pb):
                        sb[j_] = sa[i_]
                    q = 3
                    for j_ in range(nb):
                        if sb[j_] is None:
                            sb[j_] = primes[q]
                            q += 1
                    sb = tuple(sb)
                    n += 1
                    try:
                        res = run(axes, sa, sb)
                    except Raised as e:
                        bad = bad or (axes, sa, sb, f"raises ({e.text})")
                        continue
                    except NoEval:
                        raise
                    except Exception as e:
                        bad = bad or (axes, sa, sb, f"raises ({type(e).__name__}: {e})")
                        continue
                    if not (isinstance(res, tuple) and res and res[0] == "EQ"):
                        raise AnalysisError("_parse_tensordot_axes_to_matmul: the equation is not handed to _parse_eq_to_batch_matmul")
                    eq = res[1]
                    lhs, _, out = eq.partition("->")
                    ta, _, tb = lhs.partition(",")
                    why = None
                    if len(ta) != na or len(set(ta)) != na or len(tb) != nb:
                        why = f"equation `{eq}` does not give one symbol per axis"
                    else:
                        pair = dict(zip(pb, pa))
                        for j_ in range(nb):
                            if j_ in pair and tb[j_] != ta[pair[j_]]:
                                why = f"equation `{eq}` pairs axis {j_} of b with axis {ta.find(tb[j_])} of a, tensordot pairs it with axis {pair[j_]}"
                            if j_ not in pair and (tb[j_] in ta or tb.count(tb[j_]) != 1):
                                why = f"equation `{eq}`: the free axis {j_} of b shares a symbol"
                        want = "".join(c for i_, c in enumerate(ta) if i_ not in pa) + "".join(c for j_, c in enumerate(tb) if j_ not in pb)
                        if why is None and out != want:
                            why = f"equation `{eq}` orders the output `{out}`, tensordot's is `{want}`"
                    if why and bad is None:
                        bad = (axes, sa, sb, why)
    except NoEval as e:
        raise AnalysisError(f"_parse_tensordot_axes_to_matmul: not evaluable by the mini-evaluator ({e})")
    if bad:
        r.violation(k, f.loc, f"tensordot with axes={bad[0]!r} on shapes {bad[1]} and {bad[2]}: {bad[3]}")
    else:
        r.ok(k, f.loc, f"{n} (axes, shapes) cases: the equation handed to the pairwise planner is tensordot's")
    return r


RULES = [rule_tdotplan, rule_pairplan, rule_singleplan, rule_prims, rule_diag, rule_dedup, rule_plandep, rule_layout, rule_perm, rule_single, rule_axes, rule_memo, rule_exec, rule_pure]
