"""C19 — exponent stripping preserves the value (structural clauses only)."""

from __future__ import annotations

import ast

from ..engine.program import AnalysisError, dotted, walk_local
from ..engine.report import RuleResult
from . import common as C

PID = "C19"
EXPLANATION = (
    "Structural clauses of exponent stripping, decided on the ast/CFG: (COMBINE) "
    "every site in ContractionTree that adds two per-slice results (values derived "
    "from contract_slice/contract_core) does so through add_maybe_exponent_stripped, "
    "since the slices may be (mantissa, exponent) tuples; (PAIR) in "
    "Contractor.__call__ the exponent accumulation and the division by the same "
    "factor sit in one block under the same guard, after the pairwise step and not "
    "on the single-term branch, and the two return shapes agree with the guard; "
    "(RESCALE) gather_slices rescales tuple chunks to a common exponent before "
    "stacking and returns that exponent iff it rescaled; (OPTION) strip_exponent "
    "given to _build_expression reaches every terminal constructor. Floating-point "
    "range claims are not decided. "
    "Later rounds added: "
    "(SCALE zero-test) the zero early-out is taken only on request and only for a scale "
    "equal to zero; (FRESH) no in-place write reaches a value that may share storage with "
    "the caller's arrays. "
    "Round 7: (ZEROSHAPE, known finding F31) the executor's stripped returns agree in kind: no bare-number mantissa next to array-valued ones, because per-slice results are stacked along sliced output indices. "
    "Round 8 (engine E9): (ADDEREVAL) the adder's source is evaluated on a family of plain values and (mantissa, exponent) pairs spanning exponents -inf and -300..300 and compared with the exact rational sum. "
)
ASSUMPTIONS = (
    "contract_mpi is out of scope: it documents a plain sum of raw buffers reduced by "
    "MPI and cannot be exercised (mpi4py absent); strip_exponent is not supported there",
)

ADDER = "add_maybe_exponent_stripped"
SOURCES = ("contract_slice", "contract_core")


def _tree_methods(ctx):
    tc = ctx.p.cls(C.CORE, "ContractionTree")
    out = []
    for c in [tc] + tc.all_subclasses():
        for f in c.methods.values():
            out.append(f)
    return out


def _tainted_params(ctx, funcs):
    """(func key, param) pairs that receive per-slice results from a caller."""
    tainted = set()
    changed = True
    rounds = 0
    while changed and rounds < 4:
        changed = False
        rounds += 1
        for f in funcs:
            fl = ctx.flow(f)
            for n, call in fl.calls():
                res = ctx.r.resolve_call(f, call)
                for c in res.callees:
                    if c not in funcs:
                        continue
                    pos = [p for p in c.positional if p not in ("self", "cls")]
                    for i, a in enumerate(call.args):
                        if i < len(pos) and _is_slice_value(ctx, f, fl, a, n.id, tainted):
                            if (c.key, pos[i]) not in tainted:
                                tainted.add((c.key, pos[i]))
                                changed = True
                    for k in call.keywords:
                        if k.arg and _is_slice_value(ctx, f, fl, k.value, n.id, tainted):
                            if (c.key, k.arg) not in tainted:
                                tainted.add((c.key, k.arg))
                                changed = True
    return tainted


def _is_slice_value(ctx, f, fl, expr, at, tainted):
    deps = fl.deps(expr, at)
    for d in deps:
        if d[0] == "call" and d[1].split(".")[-1] in SOURCES:
            return True
        if d[0] == "param" and (f.key, d[1]) in tainted:
            return True
    return False


def rule_combine(ctx):
    r = RuleResult("C19-COMBINE", "per-slice results are combined with the exponent-aware adder", 3)
    funcs = _tree_methods(ctx)
    tainted = _tainted_params(ctx, funcs)
    for f in funcs:
        fl = ctx.flow(f)
        for n in fl.cfg.nodes:
            if n.ast is None or n.kind == "def":
                continue
            cands = fl.own_nodes(n, (ast.BinOp, ast.AugAssign, ast.Call))
            for e in cands:
                site = None
                if isinstance(e, ast.BinOp) and isinstance(e.op, ast.Add):
                    ops = [e.left, e.right]
                    if any(_is_slice_value(ctx, f, fl, o, n.id, tainted) for o in ops):
                        site = ("+", e)
                elif isinstance(e, ast.AugAssign) and isinstance(e.op, ast.Add):
                    if _is_slice_value(ctx, f, fl, e.value, n.id, tainted) or \
                            _is_slice_value(ctx, f, fl, e.target, n.id, tainted):
                        site = ("+=", e)
                elif isinstance(e, ast.Call):
                    d = dotted(e.func)
                    if d == ADDER and any(_is_slice_value(ctx, f, fl, a, n.id, tainted)
                                          for a in e.args):
                        site = ("adder", e)
                    elif d in ("functools.reduce", "reduce", "sum") and e.args:
                        vals = e.args[1:] if d != "sum" else e.args[:1]
                        if any(_is_slice_value(ctx, f, fl, a, n.id, tainted) for a in vals):
                            if d != "sum" and dotted(e.args[0]) == ADDER:
                                site = ("adder", e)
                            else:
                                site = (d, e)
                if site is None:
                    continue
                how, node = site
                key = ctx.key(f, "C19-COMBINE", how)
                if how == "adder":
                    r.ok(key, C.loc(f, node), f"combined through {ADDER}")
                elif f.name == "contract_mpi":
                    r.exempt(key, C.loc(f, node), "MPI reduction of raw buffers; strip_exponent "
                             "unsupported and not exercisable offline (see assumptions)")
                else:
                    r.violation(key, C.loc(f, node),
                                f"per-slice results are combined with '{how}': with strip_exponent "
                                "these are (mantissa, exponent) tuples, which '+' concatenates",
                                expr=C.unparse(node))
    return r


def _extra_guards(f, anchor, loop, acc):
    """If statements inside ``loop`` that enclose ``anchor`` and do not test the
    exponent accumulator (the stripping guard itself does)."""
    accname = None
    if isinstance(acc, ast.Assign) and isinstance(acc.targets[0], ast.Name):
        accname = acc.targets[0].id
    elif isinstance(acc, ast.AugAssign) and isinstance(acc.target, ast.Name):
        accname = acc.target.id
    inside = {id(x) for x in ast.walk(loop)}
    out = []
    for i, taken in C.enclosing_ifs(f, anchor):
        if id(i) not in inside:
            continue
        names = {x.id for x in ast.walk(i.test) if isinstance(x, ast.Name)}
        if accname is not None and accname in names:
            continue
        out.append((i, taken))
    return out


def rule_pair(ctx):
    r = RuleResult("C19-PAIR", "exponent accumulation is paired with the normalisation", 3)
    f = ctx.p.func(C.CONTRACT, "Contractor.__call__")
    # the normalisation: X = X / factor (or X /= factor) inside the contraction loop
    div = None
    for n in walk_local(f.node):
        if isinstance(n, ast.AugAssign) and isinstance(n.op, ast.Div) and \
                isinstance(n.target, ast.Name) and C.enclosing_loops(f, n):
            div = (n, n.value)
        elif isinstance(n, ast.Assign) and isinstance(n.value, ast.BinOp) and \
                isinstance(n.value.op, ast.Div) and isinstance(n.targets[0], ast.Name) and \
                isinstance(n.value.left, ast.Name) and n.value.left.id == n.targets[0].id and \
                C.enclosing_loops(f, n):
            div = (n, n.value.right)
    C.require(div is not None, "normalisation `p_array / factor` in Contractor.__call__ not found")
    dstmt, factor = div
    fname = C.unparse(factor)
    # the accumulation: additive, in log space, of the same factor
    acc = None
    mult = None
    for n in walk_local(f.node):
        if isinstance(n, (ast.Assign, ast.AugAssign)) and n is not dstmt:
            tgt = n.targets[0] if isinstance(n, ast.Assign) else n.target
            if not isinstance(tgt, ast.Name):
                continue
            v = n.value
            uses_factor = any(isinstance(x, ast.Name) and x.id == fname for x in ast.walk(v))
            if not uses_factor or tgt.id == fname:
                continue
            has_log = any(isinstance(x, ast.Call) and "log10" in ast.unparse(x.func) + " ".join(
                ast.unparse(a) for a in x.args[:1]) for x in ast.walk(v))
            additive = (isinstance(n, ast.AugAssign) and isinstance(n.op, ast.Add)) or \
                (isinstance(v, ast.BinOp) and isinstance(v.op, ast.Add)
                 and any(isinstance(x, ast.Name) and x.id == tgt.id for x in (v.left, v.right)))
            if has_log and additive:
                acc = n
            elif (isinstance(n, ast.AugAssign) and isinstance(n.op, ast.Mult)) or \
                    (isinstance(v, ast.BinOp) and isinstance(v.op, ast.Mult)):
                mult = n
    key = ctx.key(f, "C19-PAIR", "accumulate/normalise")
    if acc is None:
        why = ("the stripped scale is accumulated as a running *product* of the factors "
               "(overflows/underflows exactly where stripping is needed) instead of a sum "
               "of log10(factor)") if mult is not None else \
            "intermediates are divided by their magnitude but the exponent is not accumulated"
        r.violation(key, C.loc(f, mult or dstmt), why)
        acc = None
    else:
        pa, pd = f.module.parents.get(acc), f.module.parents.get(dstmt)
        if pa is pd:
            r.ok(key, C.loc(f, acc), "accumulate log10(factor) additively and divide by the "
                 "same factor in one block",
                 block_guard=C.unparse(pa.test) if isinstance(pa, ast.If) else "")
        else:
            r.violation(key, C.loc(f, acc), "exponent accumulation and normalisation are not in "
                        "the same block", accumulate=C.unparse(acc), normalise=C.unparse(dstmt))
    # per pairwise step, not on the single-term branch
    anchor = acc or dstmt
    loops = C.enclosing_loops(f, anchor)
    key2 = ctx.key(f, "C19-PAIR", "per-step")
    single = None
    for st in loops[0].body if loops else ():
        if isinstance(st, ast.If) and "None" in ast.unparse(st.test) and \
                any(isinstance(x, ast.Continue) for x in ast.walk(st)):
            single = st
    inside_single = single is not None and any(x is anchor for x in ast.walk(single))
    if not loops:
        r.violation(key2, C.loc(f, anchor), "normalisation is not applied after every pairwise step")
    elif inside_single:
        r.violation(key2, C.loc(f, anchor), "normalisation applied on the single-term branch")
    elif _extra_guards(f, anchor, loops[0], acc):
        g, taken = _extra_guards(f, anchor, loops[0], acc)[0]
        cond = C.unparse(g.test, 40) if taken else f"not ({C.unparse(g.test, 40)})"
        r.violation(key2, C.loc(f, anchor), f"normalisation only happens under `{cond}`: pairwise "
                    "steps on the other branch are neither rescaled nor counted in the exponent")
    else:
        r.ok(key2, C.loc(f, anchor), "applied once per pairwise step, not for single-term "
             "preprocessing")
    # return shapes: 2-tuple iff the stripping guard holds
    guard = None
    gpar = f.module.parents.get(dstmt)
    if isinstance(gpar, ast.If):
        guard = C.unparse(gpar.test)
    rets = [n for n in walk_local(f.node) if isinstance(n, ast.Return) and n.value is not None]
    key3 = ctx.key(f, "C19-PAIR", "return-shape")
    bad = []
    for rt in rets:
        is_tuple = isinstance(rt.value, ast.Tuple) and len(rt.value.elts) == 2
        guards = [(C.unparse(i.test), t) for i, t in C.enclosing_ifs(f, rt)]
        under = any(g == guard and t for g, t in guards) if guard else False
        if is_tuple != under:
            bad.append(rt)
        elif not is_tuple and not under:
            # a plain return outside the guard is right only if the stripping case
            # has already returned its (array, exponent) pair just before it
            prev = _prev_sibling(f, rt)
            if not (isinstance(prev, ast.If) and guard and C.unparse(prev.test) == guard
                    and isinstance(prev.body[-1], ast.Return)
                    and isinstance(prev.body[-1].value, ast.Tuple)):
                bad.append(rt)
    if bad or guard is None:
        r.violation(key3, C.loc(f, bad[0]) if bad else f.loc,
                    "return shape does not follow the stripping guard",
                    ret=C.unparse(bad[0]) if bad else "")
    else:
        r.ok(key3, f.loc, f"{len(rets)} returns: (array, exponent) iff `{guard}`")
    return r


def rule_adder(ctx):
    r = RuleResult("C19-ADDER", "the exponent-aware adder rescales both terms to the larger exponent", 2)
    f = ctx.p.func(C.CORE, ADDER)
    rets = [n for n in walk_local(f.node) if isinstance(n, ast.Return)
            and isinstance(n.value, ast.Tuple) and len(n.value.elts) == 2]
    C.require(rets, "tuple return of add_maybe_exponent_stripped not found")
    la = ctx.r.local_assignments(f)

    def _is_max_exp(rt_):
        e_ = rt_.value.elts[1]
        ed = la.get(e_.id, [e_]) if isinstance(e_, ast.Name) else [e_]
        return any(isinstance(v, ast.Call) and dotted(v.func) == "max" and len(v.args) == 2 for v in ed), ed
    # every stripped return carries the common exponent; report on the first that does not (source order)
    rets.sort(key=lambda n: (n.lineno, n.col_offset))
    rt = next((x for x in rets if not _is_max_exp(x)[0]), rets[-1])
    e = rt.value.elts[1]
    is_max, edef = _is_max_exp(rt)
    key = ctx.key(f, "C19-ADDER", "common-exponent")
    if is_max:
        r.ok(key, C.loc(f, rt), "result exponent = max of both exponents")
    else:
        r.violation(key, C.loc(f, rt), "the common exponent is not `max(xe, ye)`: either one operand's "
                    "exponent is kept (10**(ye - xe) overflows when a later term is many decades larger "
                    "than the running total) or the maximum is computed arithmetically, which is nan "
                    "for the zero sentinel -inf", exponent=C.unparse(edef[0], 60))
    # every power of ten has a non-positive exponent of the form (own - common)
    key = ctx.key(f, "C19-ADDER", "bounded-rescale")
    pows = [n for n in walk_local(f.node) if isinstance(n, ast.BinOp) and isinstance(n.op, ast.Pow)
            and isinstance(n.left, ast.Constant) and n.left.value == 10]
    ename = e.id if isinstance(e, ast.Name) else None
    good = bool(pows) and is_max and all(
        isinstance(p.right, ast.BinOp) and isinstance(p.right.op, ast.Sub)
        and isinstance(p.right.right, ast.Name) and p.right.right.id == ename for p in pows)
    if good and len(pows) >= 2:
        r.ok(key, C.loc(f, pows[0]), "both mantissas are scaled by 10**(own - max) <= 1")
    else:
        r.violation(key, C.loc(f, pows[0]) if pows else f.loc, "a mantissa is rescaled by a "
                    "power of ten that is not bounded by 1 (exponent difference taken against "
                    "something other than the common maximum), or one term is not rescaled")
    # F18: C19-SCALE establishes that an exactly-zero result carries the exponent -inf; two such
    # terms meet here (two vanishing slices) and `own - max` is -inf - -inf = nan.  The powers must
    # be dominated by a test that takes the all-zero case out.
    key = ctx.key(f, "C19-ADDER", "zero-pair")
    if pows and is_max and ename:
        fl = ctx.flow(f)
        cfg = fl.cfg
        guards = []
        for tn in cfg.nodes:
            if tn.kind != "test" or not isinstance(tn.ast, ast.If):
                continue
            t = tn.ast.test
            names = {x.id for x in ast.walk(t) if isinstance(x, ast.Name)}
            mentions = ename in names or len({x for x in names}) >= 2
            infy = any(_is_neg_inf(x) for x in ast.walk(t)) or any(
                isinstance(x, ast.Call) and (dotted(x.func) or "").split(".")[-1] in ("isinf", "isfinite")
                for x in ast.walk(t))
            if mentions and infy:
                guards.append(tn)
        pn = cfg.containing(pows[0], f.module.parents)
        ok = False
        for g in guards:
            body_succ = [x for x in cfg.succ[g.id] if cfg.branch.get((g.id, x)) is True]
            # the guarded (all-zero) branch must not reach the powers
            t = g.ast.test
            neg = isinstance(t, ast.UnaryOp) and isinstance(t.op, ast.Not) or any(
                isinstance(c, ast.Compare) and isinstance(c.ops[0], (ast.NotEq, ast.Gt)) for c in ast.walk(t)) \
                or any(isinstance(x, ast.Call) and (dotted(x.func) or "").endswith("isfinite") for x in ast.walk(t))
            zero_branch = [x for x in cfg.succ[g.id] if x not in body_succ] if neg else body_succ
            if cfg.dominates(g.id, pn.id) and all(pn.id not in cfg.reachable(z) for z in zero_branch):
                ok = True
        if ok:
            r.ok(key, C.loc(f, guards[0].ast), "two exactly-zero terms (exponent -inf) are added without "
                 "forming 10 ** (-inf - -inf)")
        else:
            r.violation(key, C.loc(f, pows[0]), "two exactly-zero terms (both exponents -inf, the sentinel "
                        "C19-SCALE requires) reach `10 ** (own - max)` = 10 ** nan: the running sum turns "
                        "nan and stays nan although later slices are non-zero")
    # (seed C19_10) the sum is elementwise while the exponent is one number per term: no return of the adder may
    # leave one term out — where the larger term is exactly zero in some entries, the 'negligible' one is the
    # whole value there
    key = ctx.key(f, "C19-ADDER", "both-terms")
    fl = ctx.flow(f)
    # the two mantissas: names unpacked from the two parameters
    params = [a.arg for a in f.node.args.args][:2]
    mant = {}
    for n in walk_local(f.node):
        if isinstance(n, ast.Assign) and isinstance(n.targets[0], ast.Tuple) and len(n.targets[0].elts) == 2 \
                and isinstance(n.value, ast.Name) and n.value.id in params:
            mant[n.value.id] = n.targets[0].elts[0].id
    bad = None
    # every (mantissa, exponent) alternative any return can hand back, conditional expressions included
    alts = []
    for n in walk_local(f.node):
        if isinstance(n, ast.Return) and n.value is not None:
            stack = [n.value]
            while stack:
                v_ = stack.pop()
                if isinstance(v_, ast.IfExp):
                    stack += [v_.body, v_.orelse]
                elif isinstance(v_, ast.Tuple) and len(v_.elts) == 2:
                    alts.append((n, v_))
    if len(mant) == 2:
        for rt2, tup in alts:
            mexpr = tup.elts[0]
            node = fl.cfg.containing(rt2, f.module.parents)
            deps = fl.deps(mexpr, node.id, "must")
            names = {d_[1] for d_ in deps if d_[0] == "param"}
            locs = {x.id for x in ast.walk(mexpr) if isinstance(x, ast.Name)}
            # dependence on both operands (through the unpacked mantissas)
            uses = set()
            for pn, mn in mant.items():
                if pn in names or mn in locs:
                    uses.add(pn)
                else:
                    for v in la.get(mexpr.id, []) if isinstance(mexpr, ast.Name) else []:
                        if mn in {x.id for x in ast.walk(v) if isinstance(x, ast.Name)}:
                            uses.add(pn)
            if len(uses) < 2:
                bad = rt2
        if bad is not None:
            g = C.enclosing_ifs(f, bad)
            r.violation(key, C.loc(f, bad), f"`{C.unparse(bad, 50)}`" + (f" under `{C.unparse(g[0][0].test, 50)}`" if g else "") +
                        " hands back one term's mantissa alone: the other term is dropped although it can be the entire value of "
                        "the entries in which the returned term is exactly zero (slices of very different magnitude, sparse or "
                        "diagonal tensors)")
        else:
            r.ok(key, C.loc(f, rets[0]), f"all {len(alts)} stripped return alternatives combine both mantissas")
    else:
        raise AnalysisError("add_maybe_exponent_stripped: unpacking of the two (mantissa, exponent) pairs not recognised")
    return r


def _is_neg_inf(x):
    if isinstance(x, ast.UnaryOp) and isinstance(x.op, ast.USub):
        v = x.operand
        if isinstance(v, ast.Call) and dotted(v.func) == "float" and v.args and \
                isinstance(v.args[0], ast.Constant) and str(v.args[0].value).lstrip("+") in ("inf", "infinity"):
            return True
        if (dotted(v) or "").split(".")[-1] in ("inf", "infty", "Inf", "INF"):
            return True
    if isinstance(x, ast.Call) and dotted(x.func) == "float" and x.args and isinstance(x.args[0], ast.Constant) \
            and str(x.args[0].value) in ("-inf", "-infinity"):
        return True
    if isinstance(x, ast.Name) and x.id.upper() in ("NEG_INF", "NEGINF", "MINUS_INF"):
        return True
    return False


def _prev_sibling(func, st):
    par = func.module.parents.get(st)
    for fld in ("body", "orelse", "finalbody"):
        body = getattr(par, fld, None)
        if body and st in body:
            i = body.index(st)
            return body[i - 1] if i > 0 else None
    return None


def rule_rescale(ctx):
    r = RuleResult("C19-RESCALE", "gather_slices rescales before stacking", 2)
    f = ctx.p.func(C.CORE, "ContractionTree.gather_slices")
    fl = ctx.flow(f)
    # the stacking step: a call of the nested function that calls do("stack", ...)
    stackers = {nf.name for nf in ctx.p.nested_funcs(f)
                if any(isinstance(x, ast.Constant) and x.value == "stack"
                       for x in ast.walk(nf.node))}
    stack_nodes, rescale, emax_name, rescale_pow = [], None, None, None
    inverted = None
    for n in fl.cfg.nodes:
        if n.kind != "stmt" or n.ast is None:
            continue
        st = n.ast
        if isinstance(st, ast.Assign) and isinstance(st.value, ast.Call) and \
                dotted(st.value.func) in stackers:
            stack_nodes.append(n)
        # rescale: a dict rebuilt with values  m * 10 ** (e - E)
        if isinstance(st, ast.Assign) and isinstance(st.value, ast.DictComp):
            pw = [x for x in ast.walk(st.value.value) if isinstance(x, ast.BinOp)
                  and isinstance(x.op, ast.Pow) and isinstance(x.left, ast.Constant)
                  and x.left.value == 10 and isinstance(x.right, ast.BinOp)
                  and isinstance(x.right.op, ast.Sub) and isinstance(x.right.right, ast.Name)]
            if pw:
                rescale = n
                emax_name = pw[0].right.right.id
                rescale_pow = pw[0]
                # (seed C02_10) which of the two is the common exponent is decided by its definition
                # (a `max(...)`), not by its position: `10 ** (emax - e)` has the sign inverted
                lft = pw[0].right.left
                if isinstance(lft, ast.Name):
                    la_l = ctx.r.local_assignments(f).get(lft.id, [])
                    la_r = ctx.r.local_assignments(f).get(emax_name, [])
                    mx = lambda vs: any(isinstance(v, ast.Call) and dotted(v.func) == "max" for v in vs)  # noqa: E731
                    if mx(la_l) and not mx(la_r):
                        inverted = (lft.id, emax_name)
                        emax_name = lft.id
    C.require(stack_nodes, "stacking step of gather_slices not recognised")
    key = ctx.key(f, "C19-RESCALE", "order")
    if rescale is None:
        r.violation(key, f.loc, "chunks with stripped exponents are stacked without being "
                    "rescaled to a common exponent")
    else:
        ifn = f.module.parents.get(rescale.ast)
        istup = isinstance(ifn, ast.If) and "isinstance" in ast.unparse(ifn.test) and \
            "tuple" in ast.unparse(ifn.test)
        la = ctx.r.local_assignments(f).get(emax_name, [])
        is_max = any(isinstance(v, ast.Call) and dotted(v.func) == "max" for v in la)
        before = all(s_.id in fl.cfg.reachable_from_succs(rescale.id) and
                     rescale.id not in fl.cfg.reachable_from_succs(s_.id) for s_ in stack_nodes)
        # the form of the rescale: mantissa * 10 ** (its own exponent - common exponent),
        # with mantissa and exponent the two halves of one chunk
        par = f.module.parents.get(rescale_pow)
        form_ok = isinstance(par, ast.BinOp) and isinstance(par.op, ast.Mult) and \
            isinstance(rescale_pow.right.left, ast.Name)
        if form_ok:
            other = par.left if par.right is rescale_pow else par.right
            gen = rescale.ast.value.generators[0]
            pairs = [t for t in ast.walk(gen.target) if isinstance(t, ast.Tuple) and len(t.elts) == 2
                     and all(isinstance(x, ast.Name) for x in t.elts)]
            form_ok = isinstance(other, ast.Name) and any(
                p_.elts[0].id == other.id and p_.elts[1].id == rescale_pow.right.left.id for p_ in pairs)
        if inverted:
            form_ok = False
        if istup and before and is_max and inverted:
            r.violation(key, C.loc(f, rescale.ast), f"chunks are scaled by `10 ** ({inverted[0]} - {inverted[1]})`: the sign "
                        f"is inverted — a chunk whose exponent lies below the common one is blown up instead of "
                        f"scaled down (mantissa * 10 ** (own exponent - {inverted[0]}) is required); only visible when "
                        f"the chunks of one output carry different exponents")
        elif istup and before and is_max and not form_ok:
            r.violation(key, C.loc(f, rescale.ast), "chunks are not brought to the common exponent as "
                        "mantissa * 10 ** (exponent - emax): " + C.unparse(rescale.ast.value.value, 60))
        elif istup and before and is_max:
            r.ok(key, C.loc(f, rescale.ast), "tuple chunks are rescaled to the largest exponent "
                 "before the stack")
        else:
            r.violation(key, C.loc(f, rescale.ast), "rescale to the largest exponent does not "
                        "precede the stack under the tuple test")
    key2 = ctx.key(f, "C19-RESCALE", "emax-returned")
    rets = [n for n in fl.returns() if isinstance(n.ast.value, ast.Tuple)
            and len(n.ast.value.elts) == 2 and isinstance(n.ast.value.elts[1], ast.Name)
            and n.ast.value.elts[1].id == emax_name]
    if rescale is None or not rets:
        r.violation(key2, f.loc, "the common exponent is not returned with the stacked result")
    else:
        g = [C.unparse(i.test) for i, t in C.enclosing_ifs(f, rets[0].ast) if t]
        if any(x == f"{emax_name} is not None" for x in g):
            r.ok(key2, C.loc(f, rets[0].ast), "common exponent returned iff chunks were tuples")
        else:
            r.violation(key2, C.loc(f, rets[0].ast), "the exponent return is not guarded by the "
                        "rescale")
    return r


SAFE_MAX = {"max", "amax", "nanmax"}
SAFE_ABS = {"abs", "absolute", "fabs"}


def _neg_inf(ctx, f, e, depth=0):
    """Expression is the constant -inf."""
    if isinstance(e, ast.Call) and dotted(e.func) == "float" and len(e.args) == 1 and \
            isinstance(e.args[0], ast.Constant) and str(e.args[0].value).strip().lower() in (
                "-inf", "-infinity"):
        return True
    if isinstance(e, ast.UnaryOp) and isinstance(e.op, ast.USub):
        v = e.operand
        if isinstance(v, ast.Call) and dotted(v.func) == "float" and len(v.args) == 1 and \
                isinstance(v.args[0], ast.Constant) and str(v.args[0].value).strip().lower() in (
                    "inf", "infinity", "+inf"):
            return True
        if (dotted(v) or "").split(".")[-1] in ("inf", "infty", "Inf", "Infinity", "PINF"):
            return True
    if (dotted(e) or "").split(".")[-1] == "NINF":
        return True
    if isinstance(e, ast.Name) and depth < 3:
        la = ctx.r.local_assignments(f).get(e.id, [])
        if la:
            return all(_neg_inf(ctx, f, v, depth + 1) for v in la)
        v = f.module.assigns.get(e.id)
        if v is not None:
            vals = v if isinstance(v, list) else [v]
            return all(_neg_inf(ctx, f, getattr(x, "value", x), depth + 1) for x in vals)
    return False


def rule_scale(ctx):
    """What is divided out of every intermediate is its largest magnitude - a
    reduction that cannot overflow or underflow where the entries themselves are
    representable and that bounds the mantissa by one; and an exactly-zero
    intermediate is reported with the exponent that is neutral for the exponent-aware
    adder (-inf), so that it never sets the common exponent of a sum or stack."""
    r = RuleResult("C19-SCALE", "the stripped scale is max|x|; a zero result carries exponent -inf", 2)
    f = ctx.p.func(C.CONTRACT, "Contractor.__call__")
    fl = ctx.flow(f)
    divs = []
    for n in walk_local(f.node):
        if isinstance(n, ast.AugAssign) and isinstance(n.op, ast.Div) and C.enclosing_loops(f, n):
            divs.append((n, n.value))
        elif isinstance(n, ast.Assign) and isinstance(n.value, ast.BinOp) and \
                isinstance(n.value.op, ast.Div) and isinstance(n.targets[0], ast.Name) and \
                isinstance(n.value.left, ast.Name) and n.value.left.id == n.targets[0].id and \
                C.enclosing_loops(f, n):
            divs.append((n, n.value.right))
    C.require(divs, "normalisation `p_array / factor` in Contractor.__call__ not found")
    dstmt, factor = divs[-1]
    key = ctx.key(f, "C19-SCALE", "measure")
    exprs = [factor]
    if isinstance(factor, ast.Name):
        cn = fl.cfg.containing(dstmt, f.module.parents)
        exprs = [d.value for d in fl.defs_reaching(factor.id, cn.id) if d.value is not None]
    C.require(exprs, "definition of the scale factor not found")
    bad = None
    for e in exprs:
        ops = []
        for x in ast.walk(e):
            if isinstance(x, ast.Call):
                d = dotted(x.func)
                if d == "do" and x.args and isinstance(x.args[0], ast.Constant):
                    op = str(x.args[0].value)
                    ordk = [k.value for k in x.keywords if k.arg == "ord"]
                    if op.endswith("norm") and ordk and (
                            (dotted(ordk[0]) or "").split(".")[-1] in ("inf", "Inf", "infty") or
                            (isinstance(ordk[0], ast.Call) and dotted(ordk[0].func) == "float" and
                             ordk[0].args and isinstance(ordk[0].args[0], ast.Constant) and
                             str(ordk[0].args[0].value).lower() in ("inf", "+inf", "infinity"))):
                        # the infinity norm of the flattened array *is* max(abs(.))
                        ops += ["max", "abs"]
                    else:
                        ops.append(op)
                elif d in ("float", "abs", "max"):
                    ops.append(d)
                else:
                    ops.append(d or C.unparse(x.func, 30))
        kinds = set(ops) - {"float"}
        if not (kinds & SAFE_MAX and kinds & SAFE_ABS and kinds <= SAFE_MAX | SAFE_ABS):
            bad = (e, sorted(kinds))
    if bad:
        r.violation(key, C.loc(f, bad[0]), f"the factor divided out of each intermediate is computed "
                    f"with {bad[1]}, not max(abs(.)): a reduction that squares or sums entries "
                    "overflows/underflows although every entry is representable, and anything but "
                    "the largest magnitude does not bound the mantissa", expr=C.unparse(bad[0], 100))
    else:
        r.ok(key, C.loc(f, exprs[0]), "factor = max(abs(intermediate))")
    # zero sentinel
    key2 = ctx.key(f, "C19-SCALE", "zero")
    rets = [n for n in walk_local(f.node) if isinstance(n, ast.Return)
            and isinstance(n.value, ast.Tuple) and len(n.value.elts) == 2
            and isinstance(n.value.elts[0], ast.Constant) and n.value.elts[0].value == 0]
    if not rets:
        r.exempt(key2, f.loc, "no early return for an exactly-zero intermediate (check_zero removed): "
                 "nothing to check")
    for rt in rets:
        if _neg_inf(ctx, f, rt.value.elts[1]):
            r.ok(key2, C.loc(f, rt), "zero result returned as (0, -inf): neutral for max() in the adder")
        else:
            r.violation(key2, C.loc(f, rt), f"an exactly-zero result is returned with exponent "
                        f"`{C.unparse(rt.value.elts[1])}` instead of -inf: in a sum or stack of "
                        "slices it sets the common exponent and the non-zero slices underflow to 0")
        # (sensitivity map) the early return is taken only for a scale that *is* zero, and only on request
        key3 = ctx.key(f, "C19-SCALE", "zero-test")
        g = C.enclosing_ifs(f, rt)
        t = g[0][0].test if g and g[0][1] else None
        conj = t.values if isinstance(t, ast.BoolOp) and isinstance(t.op, ast.And) else ([t] if t is not None else [])
        fname = factor.id if isinstance(factor, ast.Name) else None
        is_zero = [c for c in conj if isinstance(c, ast.Compare) and len(c.ops) == 1 and isinstance(c.ops[0], ast.Eq)
                   and fname and fname in C.unparse(c.left) and isinstance(c.comparators[0], ast.Constant)
                   and c.comparators[0].value == 0]
        if t is None:
            r.violation(key3, C.loc(f, rt), "the zero result is returned unconditionally / in an else branch")
        elif isinstance(t, ast.BoolOp) and isinstance(t.op, ast.Or):
            r.violation(key3, C.loc(f, rt), f"`{C.unparse(t, 60)}`: with `or` the contraction is reported as exactly zero "
                        f"whenever the option is on, whatever the scale")
        elif not is_zero:
            r.violation(key3, C.loc(f, rt), f"`{C.unparse(t, 60)}` does not test the scale factor for equality with zero: a "
                        f"non-zero intermediate ends the contraction with the value 0")
        else:
            r.ok(key3, C.loc(f, rt), f"returned only under `{C.unparse(t, 60)}`")
    return r


def rule_option(ctx):
    r = RuleResult("C19-OPTION", "strip_exponent reaches every expression branch", 3)
    f = ctx.p.func(C.INTERFACE, "_build_expression")
    C.require("strip_exponent" in f.params, "_build_expression has no strip_exponent parameter")
    # terminal constructors: assignments to ``fn`` from calls / nested defs
    terminals = []
    for n in walk_local(f.node):
        if isinstance(n, ast.Assign) and len(n.targets) == 1 and \
                isinstance(n.targets[0], ast.Name) and n.targets[0].id == "fn" and \
                isinstance(n.value, ast.Call):
            d = dotted(n.value.func) or ""
            if d.split(".")[-1] in ("Via", "_wrap_strip_exponent_final"):
                continue
            terminals.append(n)
    C.require(len(terminals) >= 2, "terminal constructors of _build_expression not recognised")
    for t in terminals:
        call = t.value
        name = (dotted(call.func) or "?").split(".")[-1]
        key = ctx.key(f, "C19-OPTION", name)
        kw = {k.arg: k.value for k in call.keywords}
        v = kw.get("strip_exponent")
        if isinstance(v, ast.Name) and v.id == "strip_exponent":
            r.ok(key, C.loc(f, t), "strip_exponent forwarded")
        else:
            r.violation(key, C.loc(f, t), f"{name}(...) is built without the strip_exponent option")
    # single-tensor branch: nested defs ignore the option, so the wrapper must apply
    nested = [nf.node for nf in ctx.p.nested_funcs(f)]
    wraps = [n for n in walk_local(f.node) if isinstance(n, ast.Call)
             and dotted(n.func) == "_wrap_strip_exponent_final"]
    key = ctx.key(f, "C19-OPTION", "single-tensor")
    if nested:
        ok = False
        for w in wraps:
            guards = [(C.unparse(i.test), t) for i, t in C.enclosing_ifs(f, w)]
            if guards and guards[0][0] == "strip_exponent" and guards[0][1]:
                # the wrapper must sit in the same branch as the nested defs, after them
                outer_w = [i for i, t in C.enclosing_ifs(f, w)][1:]
                outer_d = [i for i, t in C.enclosing_ifs(f, nested[0])]
                if outer_w and outer_d and outer_w[0] is outer_d[-1]:
                    ok = True
        if ok:
            r.ok(key, f.loc, "single-tensor functions are wrapped to return (x, 0.0) when stripping")
        else:
            r.violation(key, f.loc, "single-tensor branch ignores strip_exponent")
    # the wrapper returns (value, 0.0)
    w = ctx.p.func(C.INTERFACE, "_wrap_strip_exponent_final")
    inner = ctx.p.nested_funcs(w)
    key = ctx.key(w, "C19-OPTION", "wrapper-shape")
    good = False
    for nf in inner:
        for n in walk_local(nf.node):
            if isinstance(n, ast.Return) and isinstance(n.value, ast.Tuple) and \
                    len(n.value.elts) == 2 and isinstance(n.value.elts[1], ast.Constant) and \
                    n.value.elts[1].value == 0.0:
                good = True
    if good:
        r.ok(key, w.loc, "returns (result, 0.0)")
    else:
        r.violation(key, w.loc, "wrapper does not return (result, 0.0)")
    return r


# ------------------------------------------------------------------ FRESH

VIEW_OPS = {"transpose", "reshape", "ravel", "squeeze", "expand_dims", "swapaxes", "moveaxis",
            "diagonal", "asarray", "array", "real", "imag", "conj", "broadcast_to", "view", "T"}
INPLACE_METHODS = {"fill", "sort", "resize", "put", "itemset", "partition", "setfield", "clip_",
                   "mul_", "div_", "add_", "sub_", "copy_", "zero_", "fill_"}


def rule_fresh(ctx):
    """The per-step normalisation (and anything else in the executor) never writes into storage
    that may be shared with the caller's arrays: inputs are reused by every slice and every later
    call, so an in-place rescale of something that can be a *view* of an input (single-operand
    einsum: diagonal / transposition; transpose, reshape) silently rescales the input itself and
    the next slice strips a factor that was already divided out."""
    r = RuleResult("C19-FRESH", "no in-place operation on values that may alias the input arrays", 1)
    m = ctx.p.module(C.CONTRACT)
    for f in m.all_funcs:
        if f.vararg != "arrays" and "arrays" not in f.params:
            continue
        if f.name not in ("__call__",):
            continue
        fl = ctx.flow(f)
        parents = f.module.parents
        src = f.vararg or "arrays"
        # pools: containers filled from the inputs
        pools = set()
        for n in walk_local(f.node):
            if isinstance(n, ast.Assign) and len(n.targets) == 1 and isinstance(n.targets[0], ast.Name):
                if any(isinstance(x, ast.Name) and x.id == src for x in ast.walk(n.value)) and \
                        (isinstance(n.value, (ast.DictComp, ast.ListComp, ast.Dict, ast.List, ast.Tuple))
                         or (isinstance(n.value, ast.Call) and dotted(n.value.func) in ("dict", "list", "tuple"))):
                    pools.add(n.targets[0].id)
        memo = {}

        def kind(e, at, depth=0):
            """'alias' | 'fresh' | 'other'"""
            if depth > 8:
                return "alias"
            if isinstance(e, ast.Name):
                if e.id == src:
                    return "alias"
                defs = [d for d in fl.defs_reaching(e.id, at) if d.kind in ("assign", "aug", "iter", "with")]
                ks = set()
                for d in defs:
                    key = (id(d), )
                    if key in memo:
                        ks.add(memo[key])
                        continue
                    memo[key] = "other"
                    if d.kind == "aug":
                        k = "fresh"
                    elif d.value is None:
                        k = "other"
                    elif d.index is not None:
                        k = "alias" if any(isinstance(x, ast.Name) and (x.id in pools or x.id == src)
                                           for x in ast.walk(d.value)) else "other"
                    else:
                        k = kind(d.value, d.node, depth + 1)
                    memo[key] = k
                    ks.add(k)
                if "alias" in ks:
                    return "alias"
                if "fresh" in ks:
                    return "fresh"
                return "other"
            if isinstance(e, ast.Subscript):
                b = e.value
                if isinstance(b, ast.Name) and (b.id in pools or b.id == src):
                    return "alias"
                return kind(b, at, depth + 1)  # slicing gives a view
            if isinstance(e, ast.Attribute):
                if e.attr in VIEW_OPS:
                    return kind(e.value, at, depth + 1)
                return "other"
            if isinstance(e, ast.Call):
                fn = e.func
                if isinstance(fn, ast.Attribute) and isinstance(fn.value, ast.Name) and \
                        (fn.value.id in pools) and fn.attr in ("pop", "get", "popitem"):
                    return "alias"
                args = list(e.args) + [k.value for k in e.keywords if k.arg not in ("like", "out")]
                aks = [kind(a, at, depth + 1) for a in args]
                arrs = [k for k in aks if k in ("alias", "fresh")]
                recv = None
                if isinstance(fn, ast.Attribute):
                    recv = kind(fn.value, at, depth + 1)
                    if recv in ("alias", "fresh"):
                        if fn.attr in VIEW_OPS:
                            return recv
                        if fn.attr == "copy":
                            return "fresh"
                        arrs = arrs + [recv]
                if len(arrs) >= 2:
                    return "fresh"
                if len(arrs) == 1:
                    # one array operand: the result may be a view of it (single-operand einsum,
                    # transpose/reshape through a dispatcher); reductions give scalars, which is
                    # harmless to over-approximate
                    name = (dotted(fn) or "").split(".")[-1]
                    strs = [a.value for a in e.args if isinstance(a, ast.Constant) and isinstance(a.value, str)]
                    if name == "do" and strs and strs[0] not in VIEW_OPS and strs[0] != "einsum":
                        return "fresh"
                    if name in ("copy", "deepcopy", "abs", "max", "log10", "float", "array_copy"):
                        return "fresh"
                    return arrs[0]
                return "other"
            if isinstance(e, ast.BinOp):
                ks = {kind(e.left, at, depth + 1), kind(e.right, at, depth + 1)}
                return "fresh" if ks & {"alias", "fresh"} else "other"
            if isinstance(e, ast.IfExp):
                ks = {kind(e.body, at, depth + 1), kind(e.orelse, at, depth + 1)}
                return "alias" if "alias" in ks else ("fresh" if "fresh" in ks else "other")
            return "other"

        n_sites = 0
        bad = []
        for n in fl.cfg.nodes:
            st = n.ast
            if n.kind != "stmt" or st is None:
                continue
            if isinstance(st, ast.AugAssign) and isinstance(st.target, ast.Name):
                k = kind(ast.Name(id=st.target.id, ctx=ast.Load()), n.id)
                if k in ("alias", "fresh"):
                    n_sites += 1
                if k == "alias":
                    bad.append((st, f"`{C.unparse(st, 50)}` operates in place on a value that may be a view "
                                    f"of one of the caller's arrays"))
            elif isinstance(st, (ast.Assign, ast.AugAssign)):
                tgts = st.targets if isinstance(st, ast.Assign) else [st.target]
                for t in tgts:
                    if isinstance(t, ast.Subscript) and isinstance(t.value, ast.Name) and \
                            t.value.id not in pools:
                        k = kind(t.value, n.id)
                        if k in ("alias", "fresh"):
                            n_sites += 1
                        if k == "alias":
                            bad.append((st, f"`{C.unparse(st, 50)}` writes into a value that may be a view of "
                                            f"one of the caller's arrays"))
            for c in fl.own_nodes(n, (ast.Call,)) if hasattr(fl, "own_nodes") else []:
                for kw in c.keywords:
                    if kw.arg == "out" and kind(kw.value, n.id) == "alias":
                        bad.append((st, f"`out={C.unparse(kw.value, 30)}` targets a value that may alias an input"))
                if isinstance(c.func, ast.Attribute) and c.func.attr in INPLACE_METHODS and \
                        kind(c.func.value, n.id) == "alias":
                    bad.append((st, f"`{C.unparse(c, 50)}` mutates a value that may alias an input"))
        key = ctx.key(f, "C19-FRESH")
        if bad:
            for st, why in bad:
                r.violation(key, C.loc(f, st), why + ": the input is reused by every other slice and "
                            "later call, which then see it already rescaled")
        else:
            r.ok(key, f.loc, f"no in-place write reaches storage shared with the inputs "
                 f"({n_sites} in-place site(s) on fresh intermediates, pools {sorted(pools)})")
    return r


def rule_zeroshape(ctx):
    """(finding F31) Per-slice results are *stacked* along sliced output indices, so every value the executor hands
    back under exponent stripping must have the slice's shape.  Sibling agreement of the executor's returns: if one
    `return (mantissa, exponent)` hands back an array, none hands back a bare number as mantissa — unless the
    gatherer gives scalar chunks the common shape itself (`broadcast_to` / `zeros` / `zeros_like` / `full` before
    the stack)."""
    r = RuleResult("C19-ZEROSHAPE", "every stripped result has the shape of its slice", 1)
    cc = ctx.p.cls(C.CONTRACT, "Contractor")
    C.require(cc is not None, "Contractor not found")
    f = cc.methods.get("__call__")
    tc = ctx.p.cls(C.CORE, "ContractionTree")
    g = tc.lookup("gather_slices")
    C.require(f is not None and g is not None, "Contractor.__call__ / gather_slices not found")
    rets = [n for n in walk_local(f.node) if isinstance(n, ast.Return) and isinstance(n.value, ast.Tuple) and len(n.value.elts) == 2]
    C.require(rets, "Contractor.__call__: no (mantissa, exponent) return")
    arrays = [n for n in rets if not isinstance(n.value.elts[0], ast.Constant)]
    scalars = [n for n in rets if isinstance(n.value.elts[0], ast.Constant) and isinstance(n.value.elts[0].value, (int, float))]
    stacks = [c for c in ast.walk(g.node) if isinstance(c, ast.Call) and ((dotted(c.func) or "").endswith("stack") or
              (dotted(c.func) == "do" and c.args and isinstance(c.args[0], ast.Constant) and c.args[0].value in ("stack", "concatenate")))]
    C.require(stacks, "gather_slices: stacking of the chunks not found")
    repairs = [c for c in ast.walk(g.node) if isinstance(c, ast.Call) and (
        (dotted(c.func) or "").split(".")[-1] in ("broadcast_to", "zeros", "zeros_like", "full", "full_like") or
        (dotted(c.func) == "do" and c.args and isinstance(c.args[0], ast.Constant) and c.args[0].value in
         ("broadcast_to", "zeros", "zeros_like", "full", "full_like")))]
    k = ctx.key(f, "C19-ZEROSHAPE")
    if scalars and arrays and not repairs:
        r.violation(k, C.loc(f, scalars[0]), f"`{C.unparse(scalars[0])}`: the early exit hands back a bare number where the other exits hand back "
                    "the result array; gather_slices stacks the per-slice results along sliced output indices, and a vanishing slice "
                    "next to non-vanishing ones cannot be stacked (ValueError) although the total is non-zero")
    else:
        r.ok(k, C.loc(f, rets[0]), "all stripped returns hand back arrays (or the gatherer gives scalar chunks a shape)")
    return r


def rule_corekey(ctx):
    """Shared with C02-COREKEY (seed C19_12): `strip_exponent` and `check_zero` are baked into the compiled contractor;
    the per-tree memo must be keyed by them, or the value the tree was first contracted with sticks (a later
    `check_zero=True` is answered by a contractor that divides 0 by 0)."""
    from .c02 import rule_corekey as src

    return C.reuse_rule(ctx, src, "C02-COREKEY", "C19-COREKEY", "the per-tree contractor memo is keyed by the stripping options",
                        lambda i: True, 1)


def rule_addereval(ctx):
    """(engine E9) The exponent-aware adder is a pure function of two values, each a plain number or a (mantissa,
    exponent) pair.  Its source is evaluated on every pair from a family that spans the property's range — exponents
    -inf (the zero sentinel), -300, -5, 0, 7, 300; mantissas 0, 1.5, -2.5, 1e-3; plain numbers — and the result is
    compared, in exact rational arithmetic, with the sum of the two represented values: finite mantissa and exponent,
    relative error below 1e-12 of the larger term, a pair whenever either argument is a pair."""
    from fractions import Fraction

    from ..engine.minieval import Mini, NoEval, Raised

    r = RuleResult("C19-ADDEREVAL", "the adder returns the sum of the represented values over the property's exponent range", 1)
    f = ctx.p.func(C.CORE, ADDER)
    C.require(f is not None, "add_maybe_exponent_stripped not found")
    k = ctx.key(f, "C19-ADDEREVAL")
    ninf = float("-inf")
    vals = [2.0, 0.0, -3.5] + [(m_, e_) for m_ in (0.0, 1.5, -2.5, 1e-3) for e_ in (ninf, -300.0, -5.0, 0.0, 7.0, 300.0) if (e_ == ninf) == (m_ == 0.0)]  # a zero result is the sentinel (0.0, -inf); other mantissas are non-zero

    def exact(v):
        if isinstance(v, tuple):
            m_, e_ = v
            if e_ == ninf:
                return Fraction(0) if m_ == 0 else None
            if e_ != e_ or e_ == float("inf") or m_ != m_ or m_ in (float("inf"), ninf):
                return None
            ei = int(e_)
            return Fraction(m_) * (Fraction(10) ** ei)
        if v != v or v in (float("inf"), ninf):
            return None
        return Fraction(v)
    bad = None
    n = 0
    try:
        for x in vals:
            for y in vals:
                n += 1
                try:
                    got = Mini({}, budget=5000).call(f.node, [x, y])
                except Raised as e:
                    bad = bad or (x, y, f"raises ({e.text})")
                    continue
                except NoEval:
                    raise
                except Exception as e:
                    bad = bad or (x, y, f"raises ({type(e).__name__}: {e})")
                    continue
                want = exact(x) + exact(y)
                if isinstance(got, tuple) != (isinstance(x, tuple) or isinstance(y, tuple)):
                    bad = bad or (x, y, f"returns {got!r}: a {'pair' if isinstance(got, tuple) else 'plain value'} is not what the arguments call for")
                    continue
                g = exact(got)
                if g is None:
                    bad = bad or (x, y, f"returns {got!r}, which is not finite")
                    continue
                scale = max(abs(exact(x)), abs(exact(y)))
                if abs(g - want) > scale * Fraction(1, 10 ** 12):
                    bad = bad or (x, y, f"returns {got!r}, the sum of the represented values is about {float(want) if abs(want) < 10**300 else want.numerator // want.denominator:.6g}")
    except NoEval as e:
        raise AnalysisError(f"add_maybe_exponent_stripped: not evaluable by the mini-evaluator ({e})")
    if bad:
        r.violation(k, f.loc, f"add_maybe_exponent_stripped({bad[0]!r}, {bad[1]!r}) {bad[2]}: a sliced contraction with exponent stripping combines "
                    "its per-slice results with this function")
    else:
        r.ok(k, f.loc, f"{n} pairs of values with exponents in {{-inf, -300 .. 300}}: finite and equal to the sum")
    return r


RULES = [rule_addereval, rule_corekey, rule_zeroshape, rule_combine, rule_pair, rule_adder, rule_rescale, rule_scale, rule_option, rule_fresh]
