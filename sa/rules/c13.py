"""C13 — in-memory caching is invisible (structural clauses)."""

from __future__ import annotations

import ast

from ..engine.program import AnalysisError, dotted, walk_local
from ..engine.report import RuleResult
from ..engine.dataflow import MUTATORS, base_name, target_names
from . import common as C

PID = "C13"
EXPLANATION = (
    "Structural clauses of the path/expression caches in interface.py and of the "
    "lru_cached parsers, decided by def-use analysis: (KEYCOMP) at every "
    "lookup-or-build site on a module-level dict, every argument of the build call "
    "is an argument of the key call; (KEYINJ) the key function carries each of its "
    "parameters injectively (only tuple/frozenset/.items()/list->tuple conversions "
    "between the parameter and the returned key; hash(), id(), len(), repr(), "
    ".values()/.keys() as the only carrier are lossy); (UNHASH) key computation and "
    "lookup sit inside a TypeError handler that performs the uncached build "
    "(sibling cross-check of the two sites); (MEMO) lru_cached functions read no "
    "mutable module state except allow-listed registries, and no caller mutates a "
    "memoised result; (STATELESS) objects stored in the expression cache never write "
    "array-derived values into their own or global state; (WHITELIST) only str/"
    "tuple/list optimize values are cacheable and lists are keyed by value; "
    "(DISPATCH) type-keyed handler caches choose by facts of the type only; (HIDDEN) "
    "mutable globals read on the build path but absent from the key are allow-listed "
    "with a reason. Numeric equality of cached and uncached results is not decided. "
    "Later rounds added: "
    "(INVALIDATE) a function that clears a memo lying below a cache table clears the "
    "table too. "
    'Round 7: (COREKEY, shared with C02) the per-tree memo of compiled contractors is keyed by every option. '
)
ASSUMPTIONS = (
    "allow-listed hidden inputs select among value-equivalent executors/optimizers: "
    "DEFAULT_IMPLEMENTATION, preset registries, type-dispatch tables",
)

INJECTIVE_WRAPPERS = {"tuple", "frozenset", "list"}
LOSSY = {"hash", "id", "len", "repr", "str", "sum", "min", "max", "sorted", "set", "bool",
         "any", "all", "type"}
ALLOWED_GLOBALS = {
    "DEFAULT_IMPLEMENTATION": "selects among value-equivalent executors (autoray/cotengra)",
    "_PRESETS_PATH": "preset registry: all optimizers yield the same contraction value",
    "_PRESETS_TREE": "preset registry: all optimizers yield the same contraction value",
    "_COMPRESSED_PRESETS": "marks presets as compressed; does not enter exact contraction",
    "_find_path_handlers": "type-keyed dispatch table (see C13-DISPATCH)",
    "_find_tree_handlers": "type-keyed dispatch table (see C13-DISPATCH)",
    "_HASH_OPTIMIZE_PREPARERS": "type-keyed dispatch table (see C13-DISPATCH)",
    "_PATH_CACHE": "the cache itself",
    "_CONTRACT_EXPR_CACHE": "the cache itself",
    "opt_einsum_installed": "import-time constant",
    "HyperGraphRust": "import-time constant (optional accelerator)",
}


# --------------------------------------------------------------------------- #


def cache_sites(ctx):
    """lookup-or-build sites: (func, cache name, try node, key expr, build call)"""
    out = []
    for path in (C.INTERFACE,):
        m = ctx.p.module(path)
        for f in m.all_funcs:
            for n in walk_local(f.node):
                if not isinstance(n, ast.Try):
                    continue
                look = None
                for st in n.body:
                    for sub in ast.walk(st):
                        if isinstance(sub, ast.Subscript) and isinstance(sub.value, ast.Name) \
                                and sub.value.id in m.assigns and isinstance(sub.ctx, ast.Load):
                            look = sub
                if look is None:
                    continue
                for h in n.handlers:
                    if "KeyError" not in ast.unparse(h.type or ast.Name("*")):
                        continue
                    for st in h.body:
                        if isinstance(st, ast.Assign):
                            stores = [t for t in st.targets if isinstance(t, ast.Subscript)
                                      and isinstance(t.value, ast.Name)
                                      and t.value.id == look.value.id]
                            if stores and isinstance(st.value, ast.Call):
                                out.append((f, look.value.id, n, look.slice, st.value))
    return out


def _is_data_cache(ctx, f, name):
    """module-level dict keyed by a contraction key (not the type-dispatch tables)"""
    return name not in ("_find_path_handlers", "_find_tree_handlers", "_HASH_OPTIMIZE_PREPARERS")


def _key_call(ctx, f, keyexpr):
    if isinstance(keyexpr, ast.Name):
        vals = ctx.r.local_assignments(f).get(keyexpr.id, [])
        calls = [v for v in vals if isinstance(v, ast.Call)]
        if len(calls) == 1:
            return calls[0]
    if isinstance(keyexpr, ast.Call):
        return keyexpr
    return None


def _arg_set(call):
    s = set()
    for a in call.args:
        s.add("*" + C.unparse(a.value) if isinstance(a, ast.Starred) else C.unparse(a))
    for k in call.keywords:
        s.add("**" + C.unparse(k.value) if k.arg is None else C.unparse(k.value))
    return s


def rule_keycomp(ctx):
    r = RuleResult("C13-KEYCOMP", "every input of the build is part of the key", 2)
    for f, cname, trynode, keyexpr, build in cache_sites(ctx):
        if not _is_data_cache(ctx, f, cname):
            continue
        key = ctx.key(f, "C13-KEYCOMP", cname)
        kc = _key_call(ctx, f, keyexpr)
        if kc is None:
            r.violation(key, C.loc(f, trynode), "cache key is not the result of a key function call")
            continue
        kargs, bargs = _arg_set(kc), _arg_set(build)
        extra = sorted(bargs - kargs)
        if extra:
            r.violation(key, C.loc(f, build), f"the cached value is built from {extra}, which "
                        "the cache key does not include: two calls differing only there share "
                        "an entry", key_args=sorted(kargs), build_args=sorted(bargs))
        else:
            r.ok(key, C.loc(f, build), "build arguments ⊆ key arguments",
                 key_args=sorted(kargs), build_args=sorted(bargs))
    return r


def _canonical_table(m, name, depth=0):
    """follow module-level aliases ``A = B`` to the table actually created"""
    vals = m.assigns.get(name, [])
    if depth < 5 and len(vals) == 1 and isinstance(vals[0], ast.Name) and vals[0].id in m.assigns:
        return _canonical_table(m, vals[0].id, depth + 1)
    return name


def rule_keyspace(ctx):
    r = RuleResult("C13-KEYSPACE", "one kind of value per cache table", 2)
    groups = {}
    for f, cname, trynode, keyexpr, build in cache_sites(ctx):
        if not _is_data_cache(ctx, f, cname):
            continue
        canon = _canonical_table(f.module, cname)
        groups.setdefault((f.module.path, canon), []).append((f, cname, build))
    for (path, canon), sites in sorted(groups.items()):
        builders = sorted({dotted(b.func) or "?" for _, _, b in sites})
        key = f"{path}::{canon}::C13-KEYSPACE"
        if len(builders) > 1:
            f, cname, b = sites[-1]
            r.violation(key, C.loc(f, b), f"the table `{canon}` is filled with the results of "
                        f"different builders {builders} under keys from the same key function: "
                        "a path query and an expression query for the same contraction collide "
                        "and receive each other's cached object",
                        names=sorted({c for _, c, _ in sites}))
        else:
            r.ok(key, C.loc(sites[0][0], sites[0][2]), f"filled only by {builders[0]}(...)")
    return r


def _carriers(ctx, f, e, depth=0, seen=None):
    """(params carried injectively, lossy functions met) of expression e"""
    seen = seen or set()
    if depth > 8:
        return set(), set()
    if isinstance(e, ast.Name):
        la = [v for v in ctx.r.local_assignments(f).get(e.id, []) if id(v) not in seen]
        if la:
            inj, lossy = set(), set()
            for v in la:
                if id(v) in seen:
                    continue
                i2, l2 = _carriers(ctx, f, v, depth + 1, seen | {id(v)})
                inj |= i2
                lossy |= l2
            if len(la) > 1:
                # conditional reassignment: carried only if every definition carries it
                sets = [_carriers(ctx, f, v, depth + 1, seen | {id(v)})[0] for v in la]
                inj = set.intersection(*sets) if sets else set()
            return inj, lossy
        if e.id in f.params or e.id == f.kwarg or e.id == f.vararg:
            return {e.id}, set()
        return set(), set()
    if isinstance(e, (ast.Tuple, ast.List)):
        inj, lossy = set(), set()
        for x in e.elts:
            i2, l2 = _carriers(ctx, f, x.value if isinstance(x, ast.Starred) else x, depth + 1, seen)
            inj |= i2
            lossy |= l2
        return inj, lossy
    if isinstance(e, ast.Call):
        d = dotted(e.func)
        if d in INJECTIVE_WRAPPERS and len(e.args) == 1 and not e.keywords:
            return _carriers(ctx, f, e.args[0], depth + 1, seen)
        if isinstance(e.func, ast.Attribute) and e.func.attr == "items" and not e.args:
            return _carriers(ctx, f, e.func.value, depth + 1, seen)
        if isinstance(e.func, ast.Attribute) and e.func.attr in ("values", "keys") and not e.args:
            i2, l2 = _carriers(ctx, f, e.func.value, depth + 1, seen)
            return set(), l2 | {"." + e.func.attr + "() of " + ",".join(sorted(i2))}
        if d == "hash_prepare_optimize" and len(e.args) == 1:
            return _carriers(ctx, f, e.args[0], depth + 1, seen)
        if d == "identity" and len(e.args) == 1:
            return _carriers(ctx, f, e.args[0], depth + 1, seen)
        if d in ("sorted",) and e.args:
            # order-normalisation of an iterable keeps the multiset of elements
            return _carriers(ctx, f, e.args[0], depth + 1, seen)
        if d in LOSSY and e.args:
            i2, l2 = _carriers(ctx, f, e.args[0], depth + 1, seen)
            return set(), l2 | {f"{d}() of {','.join(sorted(i2)) or C.unparse(e.args[0], 30)}"}
        res = ctx.r.resolve_call(f, e)
        if len(res.callees) == 1 and res.callees[0].cls is None and depth < 4:
            # a repo key function: its return value carries (or loses) the arguments
            kf = res.callees[0]
            rets = [n for n in walk_local(kf.node) if isinstance(n, ast.Return) and n.value is not None]
            if len(rets) == 1:
                i2, l2 = _carriers(ctx, kf, rets[0].value, depth + 1, seen)
                pos = kf.positional
                inj = set()
                for i, a in enumerate(e.args):
                    if i < len(pos) and pos[i] in i2:
                        ia, la2 = _carriers(ctx, f, a, depth + 1, seen)
                        inj |= ia
                        l2 = l2 | la2
                return inj, l2
        inner = set()
        for a in list(e.args) + [k.value for k in e.keywords]:
            i2, _ = _carriers(ctx, f, a.value if isinstance(a, ast.Starred) else a, depth + 1, seen)
            inner |= i2
        name = d or (e.func.attr if isinstance(e.func, ast.Attribute) else "?")
        return set(), {f"{name}() of {','.join(sorted(inner))}"} if inner else set()
    if isinstance(e, (ast.GeneratorExp, ast.ListComp, ast.SetComp)):
        i2, l2 = _carriers(ctx, f, e.elt, depth + 1, seen)
        # the element may mention loop variables, not parameters: look for lossy
        # calls applied to anything inside the element
        for sub in ast.walk(e.elt):
            if isinstance(sub, ast.Call) and dotted(sub.func) in LOSSY:
                l2 = l2 | {f"{dotted(sub.func)}() of {C.unparse(sub.args[0], 30) if sub.args else ''}"}
        src, l3 = _carriers(ctx, f, e.generators[0].iter, depth + 1, seen)
        return (src if not l2 else set()), l2 | l3
    if isinstance(e, ast.IfExp):
        a, la_ = _carriers(ctx, f, e.body, depth + 1, seen)
        b, lb = _carriers(ctx, f, e.orelse, depth + 1, seen)
        return a & b, la_ | lb
    return set(), set()


def rule_keyinj(ctx):
    r = RuleResult("C13-KEYINJ", "the cache key is an injective encoding of the query", 1)
    seen = set()
    for f, cname, trynode, keyexpr, build in cache_sites(ctx):
        if not _is_data_cache(ctx, f, cname):
            continue
        kc = _key_call(ctx, f, keyexpr)
        if kc is None:
            continue
        res = ctx.r.resolve_call(f, kc)
        for kf in res.callees:
            if kf.key in seen:
                continue
            seen.add(kf.key)
            key = ctx.key(kf, "C13-KEYINJ")
            params = [p for p in kf.params if p not in ("self",)]
            if kf.kwarg:
                params.append(kf.kwarg)
            rets = [n for n in walk_local(kf.node) if isinstance(n, ast.Return) and n.value is not None]
            if not rets:
                r.violation(key, kf.loc, "key function returns nothing")
                continue
            bad = []
            for rt in rets:
                inj, lossy = _carriers(ctx, kf, rt.value)
                missing = [p for p in params if p not in inj]
                if missing:
                    bad.append((rt, missing, sorted(lossy)))
            if bad:
                rt, missing, lossy = bad[0]
                r.violation(key, C.loc(kf, rt), f"parameters {missing} reach the key only "
                            f"through lossy operations {lossy}: distinct queries can collide and "
                            "receive each other's cached path/expression",
                            returned=C.unparse(rt.value))
            else:
                r.ok(key, kf.loc, "every parameter is carried by tuple/frozenset/.items() only",
                     params=params)
    # every other module-level dict that is filled from a function with a computed
    # key (any memo table, however it is looked up): the key must not be built
    # from identity/hash surrogates of its inputs
    paths = [C.INTERFACE, C.CONTRACT] if ctx.tier == "quick" else list(ctx.p.modules)
    for path in paths:
        m = ctx.p.module(path)
        for g in m.all_funcs:
            for n in walk_local(g.node):
                if not isinstance(n, ast.Assign):
                    continue
                for t in n.targets:
                    if isinstance(t, ast.Subscript) and isinstance(t.value, ast.Name) and \
                            t.value.id in m.assigns and t.value.id not in \
                            ctx.r.local_assignments(g) and not isinstance(t.slice, ast.Constant):
                        inj, lossy = _carriers(ctx, g, t.slice)
                        strict = sorted(x for x in lossy
                                        if x.split("(")[0] in ("hash", "id", "repr"))
                        key = ctx.key(g, "C13-KEYINJ", t.value.id)
                        if strict:
                            r.violation(key, C.loc(g, n), f"module-level table {t.value.id} is "
                                        f"keyed through {strict}: identity/hash surrogates do not "
                                        "determine the value (in-place updates, collisions)")
                        else:
                            r.ok(key, C.loc(g, n), "key built without identity/hash surrogates")
    # the list -> tuple conversion of the preparer keeps the value
    hp = ctx.p.try_func(C.INTERFACE, "hash_prepare_optimize")
    if hp is not None:
        key = ctx.key(hp, "C13-KEYINJ", "preparer")
        vals = set()
        for n in walk_local(hp.node):
            if isinstance(n, ast.Assign) and any(isinstance(t, ast.Subscript) and
                                                 C.unparse(t.value) == "_HASH_OPTIMIZE_PREPARERS"
                                                 for t in n.targets):
                vals.add(C.unparse(n.value))
        if vals <= {"tuple", "identity"} and vals:
            r.ok(key, hp.loc, "preparers are value-preserving (tuple / identity)")
        else:
            r.violation(key, hp.loc, f"optimize preparers {sorted(vals)} are not value-preserving")
    return r


def rule_identity(ctx):
    """Cache keys compare by ``==``/hash, under which ``0 == False`` and ``1 == True``
    (and ``0.0``).  An option that is part of the key must therefore not be tested by
    *identity* against ``True``/``False`` anywhere in the cached build or in what the
    built callable executes: two equal-but-not-identical values would share one cache
    entry and behave differently without the cache."""
    r = RuleResult("C13-IDENTITY", "keyed options are not distinguished by identity in the build", 1)
    # option names: named parameters (with defaults) of the functions holding a data cache
    opts = set()
    roots = []
    for f, cname, trynode, keyexpr, build in cache_sites(ctx):
        if not _is_data_cache(ctx, f, cname):
            continue
        opts |= set(f.defaults())
        for c in ctx.r.resolve_call(f, build).callees:
            roots.append(c)
            opts |= set(c.defaults())
    opts -= {"optimize", "cache", "cache_expression", "size_dict", "shapes", "output"}
    C.require(roots and opts, "cached build functions not recognised")
    scope = {g.key: g for g in ctx.r.reachable_funcs(roots, depth=6)}
    # what the built callables execute: __call__ of the classes they construct, and the
    # tree methods they bind
    for path in (C.CONTRACT, C.CORE, C.INTERFACE):
        for g in ctx.p.module(path).all_funcs:
            if g.name in ("__call__", "contract", "contract_core", "contract_slice", "get_contractor",
                          "gather_slices", "gen_output_chunks") or g.key in scope:
                scope[g.key] = g
    n_sites = 0
    for g in scope.values():
        for n in walk_local(g.node):
            if not (isinstance(n, ast.Compare) and len(n.ops) == 1 and
                    isinstance(n.ops[0], (ast.Is, ast.IsNot))):
                continue
            rhs = n.comparators[0]
            if not (isinstance(rhs, ast.Constant) and isinstance(rhs.value, bool)):
                continue
            lhs = n.left
            name = lhs.id if isinstance(lhs, ast.Name) else (lhs.attr if isinstance(lhs, ast.Attribute) else None)
            if name not in opts:
                continue
            n_sites += 1
            r.violation(ctx.key(g, "C13-IDENTITY", name), C.loc(g, n),
                        f"`{C.unparse(n)}` distinguishes the keyed option `{name}` by identity: "
                        f"{name}=0 and {name}=False (equal, same hash) share one cache entry but take "
                        "different branches here, so the cached call and the uncached call disagree")
    if not n_sites:
        r.ok(f"{C.INTERFACE}::C13-IDENTITY", "", f"no identity test on {len(opts)} keyed options in "
             f"{len(scope)} functions of the build/execute closure", options=sorted(opts))
        if not getattr(ctx, "_is_positive_example", False):
            r.note(C.positive_example(
                ctx, rule_identity,
                [(C.CONTRACT, "        if (prefer_einsum or not tree.get_can_dot(p))",
                  "        if ((prefer_einsum is True) or not tree.get_can_dot(p))")],
                "prefer_einsum"))
    return r


def rule_unhash(ctx):
    r = RuleResult("C13-UNHASH", "unhashable queries fall back to the uncached build", 2)
    for f, cname, trynode, keyexpr, build in cache_sites(ctx):
        if not _is_data_cache(ctx, f, cname):
            continue
        key = ctx.key(f, "C13-UNHASH", cname)
        kc = _key_call(ctx, f, keyexpr)
        parents = f.module.parents
        # the statement computing the key and the lookup try must both be inside a
        # try with a TypeError handler that calls the same build function
        def typeerror_try(node):
            cur = parents.get(node)
            child = node
            while cur is not None and cur is not f.node:
                if isinstance(cur, ast.Try) and any(child is s for s in cur.body):
                    for h in cur.handlers:
                        ts = ast.unparse(h.type) if h.type is not None else "*"
                        if "TypeError" in ts or ts in ("*", "Exception"):
                            return cur, h
                child = cur
                cur = parents.get(cur)
            return None, None
        kstmt = C.enclosing_stmt(f, kc) if kc is not None else None
        t1, h1 = typeerror_try(trynode)
        t2, h2 = typeerror_try(kstmt) if kstmt is not None else (None, None)
        if t1 is None or t2 is None or t1 is not t2:
            r.violation(key, C.loc(f, trynode), "key computation / lookup is not protected by a "
                        "TypeError handler: an unhashable (but valid) query raises with the "
                        "cache on and works with the cache off")
            continue
        bname = dotted(build.func)
        fallback = [n for n in ast.walk(h1) if isinstance(n, ast.Call) and dotted(n.func) == bname]
        if fallback:
            r.ok(key, C.loc(f, h1), f"TypeError -> uncached {bname}(...)")
        else:
            r.violation(key, C.loc(f, h1), f"the TypeError handler does not perform the uncached "
                        f"{bname}(...)")
    # (seed C13_11) an option taken *out* of the keyword arguments before the builds (so that it does not enter
    # the key) is applied by hand afterwards: that must happen behind every build of the function — the cached
    # one, the TypeError fallback and the cache-off branch alike
    seen_f = set()
    for f, cname, trynode, keyexpr, build in cache_sites(ctx):
        if f.key in seen_f:
            continue
        seen_f.add(f.key)
        kwn = f.kwarg
        if not kwn:
            continue
        pops = [n for n in walk_local(f.node) if isinstance(n, ast.Assign) and isinstance(n.targets[0], ast.Name)
                and isinstance(n.value, ast.Call) and isinstance(n.value.func, ast.Attribute)
                and n.value.func.attr == "pop" and dotted(n.value.func.value) == kwn]
        if not pops:
            continue
        fl = ctx.flow(f)
        builds = [(n, c) for n, c in fl.calls() if any(k.arg is None and dotted(k.value) == kwn for k in c.keywords)
                  and (dotted(c.func) or "").startswith("_build")]
        for pst in pops:
            nm = pst.targets[0].id
            key = ctx.key(f, "C13-UNHASH", f"popped:{nm}")
            pn = fl.cfg.containing(pst, f.module.parents)
            uses = [fl.cfg.containing(x, f.module.parents).id for x in walk_local(f.node)
                    if isinstance(x, ast.Name) and x.id == nm and isinstance(x.ctx, ast.Load)]
            uses = [u for u in uses if u != pn.id]
            bad = None
            for bn, c in builds:
                if bn.id not in fl.cfg.reachable_from_succs(pn.id) and bn.id != pn.id:
                    continue   # built before the option was taken out: it still travels in **kwargs
                # uses that are plain None-tests do not apply the option
                if not fl.cfg.all_paths_pass(bn.id, uses):
                    bad = (bn, c)
                    break
            if bad:
                r.violation(key, C.loc(f, bad[1]), f"`{nm}` is taken out of `{kwn}` before this build and applied by hand afterwards, "
                            f"but not on every path from `{C.unparse(bad[1].func)}(...)` to the return: on the path that skips it "
                            f"(unhashable-key fallback / cache off) the option is silently lost, so the same call gives different "
                            f"results with the cache on and off")
            else:
                r.ok(key, C.loc(f, pst), f"`{nm}` is re-applied behind every build that no longer receives it")
    return r


# ---- MEMO ------------------------------------------------------------------


def memo_funcs(ctx, thorough):
    out = []
    paths = None if thorough else {C.CONTRACT, C.UTILS, C.INTERFACE, C.SCORING, C.BASIC}
    for f in ctx.p.all_funcs(paths):
        for d in f.decorators:
            dd = dotted(d.func) if isinstance(d, ast.Call) else dotted(d)
            if dd in ("functools.lru_cache", "lru_cache", "functools.cache", "cache"):
                out.append(f)
    return out


def mutable_globals(ctx, m):
    """module-level names bound to a mutable container, or rebound via ``global``"""
    out = {}
    for name, vals in m.assigns.items():
        for v in vals:
            if isinstance(v, (ast.Dict, ast.List, ast.Set, ast.DictComp, ast.ListComp, ast.SetComp)):
                out[name] = "container"
            elif isinstance(v, ast.Call) and (dotted(v.func) or "").split(".")[-1] in (
                    "dict", "list", "set", "defaultdict", "OrderedDict", "Counter"):
                out[name] = "container"
    for f in m.all_funcs:
        for n in walk_local(f.node):
            if isinstance(n, ast.Global):
                for nm in n.names:
                    out[nm] = "rebound"
    return out


def _closure_global_reads(ctx, f, depth=6):
    """{(module path, name): reader func} for module globals read by f and by the
    repo functions it calls (depth-bounded)."""
    out = {}
    seen = set()
    frontier = [f]
    d = 0
    while frontier and d <= depth:
        nxt = []
        for g in frontier:
            if g.key in seen:
                continue
            seen.add(g.key)
            eff = ctx.effects.direct(g)
            for nm in eff["glob_reads"] | eff["glob_mut"] | eff["glob_writes"]:
                out.setdefault((g.module.path, nm), g)
            for c in ctx.r.callees_of(g):
                if c.key not in seen:
                    nxt.append(c)
        frontier = nxt
        d += 1
    return out


def rule_memo(ctx):
    r = RuleResult("C13-MEMO", "memoised functions are pure and their results never mutated", 9)
    fs = memo_funcs(ctx, ctx.tier == "thorough")
    for f in fs:
        key = ctx.key(f, "C13-MEMO", "pure")
        bad = []
        for (path, nm), reader in _closure_global_reads(ctx, f, depth=4).items():
            mg = mutable_globals(ctx, ctx.p.modules[path])
            if nm in mg and nm not in ALLOWED_GLOBALS:
                bad.append(f"{path}:{nm} (read in {reader.qual})")
        # no own-state writes: a memoised function must not write globals
        eff = ctx.effects.direct(f)
        if eff["glob_writes"] or eff["glob_mut"]:
            bad.append(f"writes module state {sorted(eff['glob_writes'] | eff['glob_mut'])}")
        if bad:
            r.violation(key, f.loc, "memoised function depends on mutable module state: "
                        + "; ".join(bad))
        else:
            r.ok(key, f.loc, "reads only its parameters and constant module bindings")
    # (b) callers do not mutate the result
    names = {f.name: f for f in fs}
    for g in ctx.p.all_funcs(None if ctx.tier == "thorough" else
                             {C.CONTRACT, C.UTILS, C.INTERFACE, C.SCORING, C.BASIC, C.CORE}):
        for call in walk_local(g.node):
            if not (isinstance(call, ast.Call) and dotted(call.func) in names):
                continue
            mf = names[dotted(call.func)]
            st = C.enclosing_stmt(g, call)
            bound = []
            if isinstance(st, ast.Assign) and st.value is call:
                for t in st.targets:
                    bound += [nm for nm, _ in target_names(t)]
            if not bound:
                continue
            key = ctx.key(g, "C13-MEMO", f"result-of:{mf.name}")
            mut = _mutations_of(ctx, g, set(bound), after=st)
            if mut:
                r.violation(key, C.loc(g, mut[0]), f"the memoised result of {mf.name} is mutated "
                            f"in place (`{C.unparse(mut[0], 60)}`): later cache hits see the "
                            "modified value")
            else:
                r.ok(key, C.loc(g, call), "memoised result is only read")
    return r


def _mutations_of(ctx, g, names, after=None):
    out = []
    for n in walk_local(g.node):
        if isinstance(n, (ast.Assign, ast.AugAssign)):
            tgts = n.targets if isinstance(n, ast.Assign) else [n.target]
            for t in tgts:
                if isinstance(t, (ast.Subscript, ast.Attribute)) and base_name(t) in names:
                    out.append(n)
                if isinstance(n, ast.AugAssign) and isinstance(t, ast.Name) and t.id in names \
                        and isinstance(n.op, (ast.Add, ast.BitOr, ast.Mult)):
                    # x += [...] mutates lists in place
                    out.append(n)
        elif isinstance(n, ast.Delete):
            for t in n.targets:
                if isinstance(t, ast.Subscript) and base_name(t) in names:
                    out.append(n)
        elif isinstance(n, ast.Call) and isinstance(n.func, ast.Attribute) and \
                n.func.attr in MUTATORS and isinstance(n.func.value, ast.Name) and \
                n.func.value.id in names:
            out.append(n)
        elif isinstance(n, ast.Call):
            res = ctx.r.resolve_call(g, n)
            for i, a in enumerate(n.args):
                if isinstance(a, ast.Name) and a.id in names:
                    for c in res.callees:
                        if ctx.effects.mutates_param(c, i):
                            out.append(n)
    return out


# ---- STATELESS -------------------------------------------------------------


def rule_stateless(ctx):
    r = RuleResult("C13-STATELESS", "cached callables keep no array-derived state", 5)
    targets = [(C.CONTRACT, "Contractor"), (C.INTERFACE, "Variadic"), (C.INTERFACE, "Via"),
               (C.INTERFACE, "WithBackend"), (C.CONTRACT, "CuQuantumContractor")]
    for path, cname in targets:
        c = ctx.p.cls(path, cname)
        f = c.methods.get("__call__")
        C.require(f is not None, f"{cname}.__call__ not found")
        key = ctx.key(f, "C13-STATELESS")
        t = ctx.effects.transitive(f)
        wrote = sorted(t["write"] | t["mutate"])
        gl = sorted(x[1] for x in t["glob_writes"] | t["glob_mut"])
        if not wrote and not gl:
            r.ok(key, f.loc, "__call__ (and the methods it reaches on self) writes no instance "
                 "or module state")
        elif cname == "CuQuantumContractor":
            txt = ast.unparse(f.node)
            if "reset_operands(*arrays)" in txt and "self.setup(*arrays)" in txt:
                r.exempt(key, f.loc, "external cuquantum network object is re-pointed to the "
                         "new operands on every call (setup(*arrays) / reset_operands(*arrays))",
                         writes=wrote)
            else:
                r.violation(key, f.loc, "cuquantum network keeps the first call's operands",
                            writes=wrote)
        else:
            r.violation(key, f.loc, f"__call__ writes state {wrote + gl}: a cached expression "
                        "reused on new arrays can see values derived from earlier arrays")
    # closures created by _build_expression
    be = ctx.p.func(C.INTERFACE, "_build_expression")
    for nf in ctx.p.nested_funcs(be):
        key = ctx.key(nf, "C13-STATELESS")
        nl = [n for n in walk_local(nf.node) if isinstance(n, (ast.Nonlocal, ast.Global))]
        if nl:
            r.violation(key, nf.loc, "closure stored in the expression cache rebinds an outer "
                        "variable")
        else:
            r.ok(key, nf.loc, "closure writes no captured or global variable")
    # tree.contract path: instance state written must not derive from `arrays`
    tc = ctx.p.cls(C.CORE, "ContractionTree")
    for name in ("contract", "contract_core", "contract_slice", "slice_arrays", "gather_slices",
                 "get_contractor"):
        f = tc.lookup(name)
        C.require(f is not None, f"ContractionTree.{name} not found")
        fl = ctx.flow(f)
        key = ctx.key(f, "C13-STATELESS")
        bad = None
        for a in ctx.effects.direct(f)["access"]:
            if a.kind == "read" or a.recv != "self":
                continue
            st = C.enclosing_stmt(f, a.node)
            val = st.value if isinstance(st, (ast.Assign, ast.AugAssign)) else None
            if val is None:
                continue
            deps = fl.deps(val, fl.node_of_expr(a.node))
            if any(d[0] == "param" and d[1] in ("arrays", "slices", "temp_arrays") for d in deps):
                bad = a
        if bad:
            r.violation(key, bad.loc, "instance state is written from array-derived values "
                        f"(self.{bad.attr})")
        else:
            r.ok(key, f.loc, "no array-derived value is stored on the tree")
    return r


# ---- WHITELIST / DISPATCH / HIDDEN ----------------------------------------


def rule_whitelist(ctx):
    r = RuleResult("C13-WHITELIST", "only value-hashable optimize types are cached", 1)
    f = ctx.p.func(C.INTERFACE, "can_hash_optimize")
    key = ctx.key(f, "C13-WHITELIST")
    bad = None
    types = set()
    for n in walk_local(f.node):
        if isinstance(n, ast.Return) and isinstance(n.value, ast.Constant) and n.value.value is True:
            guards = C.enclosing_ifs(f, n)
            ok = False
            for ifn, t in guards:
                tt = ifn.test
                if t and isinstance(tt, ast.Call) and dotted(tt.func) == "issubclass" and \
                        len(tt.args) == 2:
                    elts = tt.args[1].elts if isinstance(tt.args[1], ast.Tuple) else [tt.args[1]]
                    names = {C.unparse(e) for e in elts}
                    types |= names
                    if names <= {"str", "tuple", "list", "bytes", "int", "frozenset"}:
                        ok = True
            if not ok:
                bad = n
        elif isinstance(n, ast.Return) and not isinstance(n.value, ast.Constant):
            bad = n
    if bad is not None:
        r.violation(key, C.loc(f, bad), "can_hash_optimize can return True for types other than "
                    "str/tuple/list: stateful optimizer objects (hashed by identity) would be "
                    "cached", ret=C.unparse(bad))
    else:
        r.ok(key, f.loc, f"True only for subclasses of {sorted(types)}")
    # both cache sites test it
    for fn in ("array_contract_path", "array_contract_expression"):
        g = ctx.p.func(C.INTERFACE, fn)
        k = ctx.key(g, "C13-WHITELIST", "gate")
        sites = [s for s in cache_sites(ctx) if s[0] is g and _is_data_cache(ctx, g, s[1])]
        gated = all(any("can_hash_optimize(" in C.unparse(i.test) and t
                        for i, t in C.enclosing_ifs(g, s[2])) for s in sites) and sites
        if gated:
            r.ok(k, g.loc, "cache use is gated by can_hash_optimize(optimize.__class__)")
        else:
            r.violation(k, g.loc, "the cache is consulted without the can_hash_optimize gate")
    return r


def rule_dispatch(ctx):
    r = RuleResult("C13-DISPATCH", "type-keyed handler caches decide by facts of the type", 3)
    for fn in ("find_path", "find_tree", "hash_prepare_optimize"):
        f = ctx.p.func(C.INTERFACE, fn)
        key = ctx.key(f, "C13-DISPATCH")
        bad = None
        n_tests = 0
        for n in walk_local(f.node):
            if isinstance(n, ast.ExceptHandler) and "KeyError" in ast.unparse(n.type or ast.Name("*")):
                for sub in ast.walk(n):
                    if isinstance(sub, ast.If):
                        n_tests += 1
                        t = sub.test
                        okt = isinstance(t, ast.Call) and dotted(t.func) in (
                            "isinstance", "issubclass", "hasattr", "callable")
                        if not okt:
                            bad = sub
        if n_tests == 0:
            raise AnalysisError(f"{fn}: type dispatch not recognised")
        if bad is not None:
            r.violation(key, C.loc(f, bad), "a handler cached per type is selected by a test on "
                        f"the value (`{C.unparse(bad.test)}`), so another value of the same "
                        "type gets the wrong handler")
        else:
            r.ok(key, f.loc, f"{n_tests} selection tests, all isinstance/issubclass/hasattr")
    return r


def rule_hidden(ctx):
    r = RuleResult("C13-HIDDEN", "hidden inputs of the cached build are allow-listed", 3)
    roots = [ctx.p.func(C.INTERFACE, n) for n in
             ("_build_expression", "find_path", "find_tree", "array_contract_tree")]
    roots.append(ctx.p.func(C.CONTRACT, "make_contractor"))
    seen = {}
    for f in roots:
        for (path, nm), reader in _closure_global_reads(ctx, f, depth=3).items():
            if path not in (C.INTERFACE, C.CONTRACT):
                continue
            mg = mutable_globals(ctx, ctx.p.modules[path])
            if nm in mg:
                seen.setdefault((path, nm), reader)
    for (path, nm), reader in sorted(seen.items()):
        key = f"{path}::{nm}::C13-HIDDEN"
        if nm in ALLOWED_GLOBALS:
            r.ok(key, reader.loc, f"allow-listed: {ALLOWED_GLOBALS[nm]}", reader=reader.qual)
        else:
            r.violation(key, reader.loc, f"mutable module global `{nm}` is read while building a "
                        "cached path/expression but is not part of the cache key",
                        reader=reader.qual)
    return r


def rule_reusable(ctx):
    """Shared with C14-HITREBUILD: the 'auto' presets answer through a reusable
    optimizer; its in-memory reuse is invisible only if hits are rebuilt per query."""
    from .c14 import rule_hitrebuild as src

    return C.reuse_rule(ctx, src, "C14-HITREBUILD", "C13-REUSABLE",
                        "preset optimizers that reuse results rebuild the tree per query",
                        lambda i: True, 1)


def rule_invalidate(ctx):
    """(seed C13_9) The caches are stacked: the tables filled by lookup-or-build sites hold objects that
    were built *through* memoised resolvers (preset name -> optimizer, ...), and the table keys carry the
    same names.  Whoever drops the inner memo (`f.cache_clear()`) while the outer table keeps its entries
    makes the uncached call (fresh resolution) and the cached call (entry built from the old resolution)
    disagree for the same arguments.  Clause: a function that clears a memo lying below a table clears
    that table too, on every path."""
    r = RuleResult("C13-INVALIDATE", "stacked caches are invalidated together", 1)
    memos = {f.key: f for f in memo_funcs(ctx, True)}
    below = {}
    for f, cname, trynode, keyexpr, build in cache_sites(ctx):
        if not _is_data_cache(ctx, f, cname):
            continue
        canon = _canonical_table(f.module, cname)
        res = ctx.r.resolve_call(f, build)
        reach = ctx.r.reachable_funcs(list(res.callees))
        below.setdefault((f.module.path, canon), set()).update(g.key for g in reach if g.key in memos)
    C.require(below, "no lookup-or-build table found")
    sites = []
    for f in ctx.p.all_funcs(None):
        for n in walk_local(f.node):
            if isinstance(n, ast.Call) and isinstance(n.func, ast.Attribute) and n.func.attr == "cache_clear":
                tgt = ctx.p.resolve_expr_static(f.module, n.func.value, f)
                tkey = getattr(tgt, "key", None)
                sites.append((f, n, tkey))
    flagged = set()
    for f, n, tkey in sites:
        fl = ctx.flow(f)
        cn = fl.cfg.containing(n, f.module.parents)
        for (path, table), ms in sorted(below.items()):
            if tkey is None or tkey not in ms:
                continue
            clears = []
            for x in walk_local(f.node):
                if isinstance(x, ast.Call) and isinstance(x.func, ast.Attribute) and x.func.attr == "clear" and \
                        isinstance(x.func.value, ast.Name) and \
                        _canonical_table(ctx.p.module(path), x.func.value.id) == table:
                    clears.append(fl.cfg.containing(x, f.module.parents).id)
            key = ctx.key(f, "C13-INVALIDATE", f"{table}<-{memos[tkey].name}")
            if clears and (fl.cfg.all_paths_pass(cn.id, clears) or any(fl.cfg.dominates(c, cn.id) for c in clears)):
                r.ok(key, C.loc(f, n), f"`{table}` is cleared together with the memo of {memos[tkey].name}")
            else:
                flagged.add((path, table))
                r.violation(key, C.loc(f, n), f"`{C.unparse(n)}` drops the memo of {memos[tkey].name}() but the entries of "
                            f"`{table}`, which were built through it and are keyed by the same names, are kept: after this "
                            f"call the uncached query resolves afresh while the cached query returns the object built from "
                            f"the old resolution — same arguments, different result depending on `cache`")
    for (path, table), ms in sorted(below.items()):
        if (path, table) in flagged:
            continue
        r.ok(f"{path}::{table}::C13-INVALIDATE", path, f"memo layers below: {sorted(memos[k].name for k in ms)}; "
             f"no site clears one of them without the table ({len(sites)} cache_clear site(s) in the package)")
    if not getattr(ctx, "_is_positive_example", False) and not r.violations:
        note = C.positive_example(
            ctx, rule_invalidate,
            [(C.INTERFACE, None, ctx.p.sources[C.INTERFACE] +
              "\n\ndef _c13_invalidate_positive_example():\n    preset_to_optimizer.cache_clear()\n")],
            "C13-INVALIDATE")
        r.note(note)
    return r


def rule_retained(ctx):
    """Shared with C16-FRESH (seed C13_12): below the path / expression caches sit the optimizers the preset
    strings resolve to; a result-carrying optimizer that is registered as a singleton or parked in module state
    hands one contraction's best tree to the next query through the same preset string — for cached and uncached
    calls alike."""
    from .c16 import rule_fresh as src

    return C.reuse_rule(ctx, src, "C16-FRESH", "C13-RETAINED",
                        "preset strings never resolve to an optimizer that remembers an earlier contraction",
                        lambda i: "registration:" in i.construct or "parked:" in i.construct, 3)


def rule_corekey(ctx):
    """Shared with C02-COREKEY (seed C13_13): the per-tree memo of compiled contractors is an in-memory cache like the
    module-level ones — `_build_expression` takes a contractor from it and calls it without per-call overrides —
    so every option handed to `make_contractor` must be part of the memo key."""
    from .c02 import rule_corekey as src

    return C.reuse_rule(ctx, src, "C02-COREKEY", "C13-COREKEY",
                        "the per-tree contractor memo is keyed by every option", lambda i: True, 1)


RULES = [rule_corekey, rule_retained, rule_invalidate, rule_keycomp, rule_keyinj, rule_keyspace, rule_unhash, rule_identity, rule_memo, rule_stateless,
         rule_whitelist, rule_dispatch, rule_hidden, rule_reusable]
