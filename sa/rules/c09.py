"""C09 — the 'optimal' finder (narrow structural clauses; optimality itself is not decided)."""

from __future__ import annotations

import ast

from ..engine.program import AnalysisError, dotted, walk_local
from ..engine.report import RuleResult
from . import common as C

PID = "C09"
EXPLANATION = (
    "Optimality (a minimum over all binary trees) is NOT decided. Decided on the ast/CFG "
    "are necessary conditions every network relies on: (COSTFN) each of the six step-cost "
    "functions is abstractly interpreted into a signature — which accumulator multiplies "
    "the dimension of every merged leg (flops-like) and which only of kept legs (size-"
    "like), how the return combines both operand scores with the local term (sum / max) — "
    "and the signature must be the objective's definition in the property statement; "
    "parse_minimize_for_optimal must map each objective name to the function with that "
    "signature; legs are deleted only in a reverse index loop; (DP) in "
    "optimize_optimal_connected the per-subgraph memo is overwritten only by a strictly "
    "(or equally) better score read from the same tuple position it is stored at, the "
    "only score-based skip compares the *new* score with the cap, the search loops "
    "contain no break/return, search_outer=True never skips; (ENUM) the ranges over "
    "subgraph sizes cover every unordered bipartition (range expressions partially "
    "evaluated for nterms <= 24), unequal sizes use the full product of both tables; "
    "(CAP) the cap grows on every sieve round and the loop ends only on a complete "
    "solution."
    "Round 7: (OPTIONS) the caller's objective and outer-product option reach the DP as given; (PRESIMP) the batch-index simplification compares the index's carriers with the number of tensors, never the appearance table. "
    'Round 8: (OPTIONS) also the network (inputs, output, size_dict) reaches the processor as given. '
    "Round 8 (engine E9): (COSTEVAL, shared with C18-PUREFNS) the step-cost functions, evaluated on a bounded family, return their objectives' definitions and leave the surviving legs behind. "
    "Round 9 (engine E9): (OPTIMALEVAL) the dynamic programme's source is evaluated on a bounded family of connected networks for every objective, both search_outer values and two caps, and its result is compared with the minimum over all binary trees found by an independent enumeration. "
)
ASSUMPTIONS = (
    "step costs are monotone (a tree's score is >= the scores of its subtrees), which is "
    "what makes the sieve exact; legs of a subgraph do not depend on how it was built",
)

PARSER = "parse_minimize_for_optimal"
DP = "ContractionProcessor.optimize_optimal_connected"

# objective name -> signature required by the property statement
#   F = product of the dimensions of every merged leg (flops of the step)
#   S = product of the dimensions of the kept legs (size of the result)
SPEC = {
    "flops": ("sum", ("I", "J", "F")),
    "max": ("max", ("F", "I", "J")),
    "size": ("max", ("I", "J", "S")),
    "write": ("sum", ("I", "J", "S")),
    "combo": ("sum", ("F", "I", "J", ("mul", ("S", "factor")))),
    "limit": ("sum", ("I", "J", ("max", ("F", ("mul", ("S", "factor")))))),
}


def _canon(t):
    """canonical nested tuple of a term"""
    if isinstance(t, str):
        return t
    op, kids = t
    flat = []
    for k in kids:
        k = _canon(k)
        if isinstance(k, tuple) and k[0] == op and op in ("sum", "max", "mul"):
            flat.extend(k[1])
        else:
            flat.append(k)
    flat.sort(key=repr)
    if len(flat) == 1 and op in ("sum", "max", "mul"):
        return flat[0]
    return (op, tuple(flat))


class _CostFn:
    """Abstract interpretation of one compute_con_cost_* sibling."""

    def __init__(self, ctx, f):
        self.ctx, self.f = ctx, f
        self.problems = []
        pos = f.positional
        C.require(len(pos) >= 5, f"{f.qual}: expected (legs, appearances, sizes, iscore, jscore[, factor])")
        self.legs, self.app, self.sizes, self.i, self.j = pos[:5]
        self.extra = pos[5:]
        self.acc = {}  # accumulator name -> 'F' | 'S' | other
        self.reverse_ok = None
        self._scan()

    def _scan(self):
        f = self.f
        body = f.node.body
        loops = [s for s in body if isinstance(s, (ast.For, ast.While))]
        C.require(len(loops) == 1, f"{f.qual}: expected exactly one top-level loop over the merged legs")
        lp = loops[0]
        init = {}
        for s in body:
            if s is lp:
                break
            if isinstance(s, ast.Assign) and len(s.targets) == 1 and isinstance(s.targets[0], ast.Name):
                init[s.targets[0].id] = s.value
        self.init = init
        # iteration order: deleting while iterating must run from the back
        deletes = [n for n in ast.walk(lp) if isinstance(n, ast.Delete)
                   or (isinstance(n, ast.Call) and isinstance(n.func, ast.Attribute)
                       and n.func.attr in ("pop", "remove") and dotted(n.func.value) == self.legs)]
        self.deletes = deletes
        if deletes:
            self.reverse_ok = self._is_reverse(lp)
        # element bindings:  ix, ix_count = legs[i]  /  d = sizes[ix]
        self.dim_names = set()
        self.count_names = set()
        self.ix_names = set()
        for n in ast.walk(lp):
            if isinstance(n, ast.Assign) and len(n.targets) == 1:
                t, v = n.targets[0], n.value
                if isinstance(t, ast.Tuple) and len(t.elts) == 2 and isinstance(v, ast.Subscript) \
                        and dotted(v.value) == self.legs:
                    if all(isinstance(e, ast.Name) for e in t.elts):
                        self.ix_names.add(t.elts[0].id)
                        self.count_names.add(t.elts[1].id)
        if isinstance(lp, ast.For) and isinstance(lp.target, ast.Tuple) and len(lp.target.elts) == 2:
            # for ix, ix_count in <legs>  (no deletion possible in this form)
            if all(isinstance(e, ast.Name) for e in lp.target.elts):
                self.ix_names.add(lp.target.elts[0].id)
                self.count_names.add(lp.target.elts[1].id)
        for n in ast.walk(lp):
            if isinstance(n, ast.Assign) and len(n.targets) == 1 and isinstance(n.targets[0], ast.Name) \
                    and self._is_dim(n.value):
                self.dim_names.add(n.targets[0].id)
        # accumulations
        contrib = {}  # acc -> set of branch kinds
        for st in self._stmts(lp.body):
            pass
        self._walk_block(lp.body, "all", contrib)
        for a, kinds in contrib.items():
            if kinds == {"all"} or {"kept", "removed"} <= kinds:
                self.acc[a] = "F"
            elif kinds == {"kept"}:
                self.acc[a] = "S"
            else:
                self.acc[a] = "?" + "+".join(sorted(kinds))
        for a in self.acc:
            v = init.get(a)
            if not (isinstance(v, ast.Constant) and v.value == 1):
                self.problems.append(f"accumulator {a} does not start at 1")

    def _stmts(self, body):
        return body

    def _is_dim(self, e):
        return isinstance(e, ast.Subscript) and dotted(e.value) == self.sizes and \
            isinstance(e.slice, ast.Name) and e.slice.id in self.ix_names

    def _is_reverse(self, lp):
        if not isinstance(lp, ast.For):
            return False
        it = lp.iter
        if isinstance(it, ast.Call) and dotted(it.func) == "reversed":
            return True
        if isinstance(it, ast.Call) and dotted(it.func) == "range" and len(it.args) == 3:
            step = it.args[2]
            if isinstance(step, ast.UnaryOp) and isinstance(step.op, ast.USub) and \
                    isinstance(step.operand, ast.Constant) and step.operand.value == 1:
                stop = it.args[1]
                stop_ok = isinstance(stop, ast.UnaryOp) and isinstance(stop.op, ast.USub) and \
                    isinstance(stop.operand, ast.Constant) and stop.operand.value == 1
                start = it.args[0]
                start_ok = isinstance(start, ast.BinOp) and isinstance(start.op, ast.Sub) and \
                    isinstance(start.right, ast.Constant) and start.right.value == 1 and \
                    isinstance(start.left, ast.Call) and dotted(start.left.func) == "len"
                return stop_ok and start_ok
        return False

    def _removal_test(self, test):
        """'removed' if the true branch is the removed-index branch, 'kept' if it
        is the kept branch, None if the test is not the survival comparison."""
        if not isinstance(test, ast.Compare) or len(test.ops) != 1:
            return None
        l, r, op = test.left, test.comparators[0], test.ops[0]

        def is_count(e):
            return isinstance(e, ast.Name) and e.id in self.count_names

        def is_app(e):
            return isinstance(e, ast.Subscript) and dotted(e.value) == self.app

        if is_count(l) and is_app(r):
            pass
        elif is_count(r) and is_app(l):
            op = {ast.Lt: ast.Gt, ast.Gt: ast.Lt, ast.LtE: ast.GtE, ast.GtE: ast.LtE}.get(type(op), type(op))()
        else:
            return None
        if isinstance(op, (ast.Eq, ast.GtE)):
            return "removed"
        if isinstance(op, (ast.NotEq, ast.Lt)):
            return "kept"
        self.problems.append(f"survival comparison with operator {type(op).__name__}")
        return None

    def _walk_block(self, body, kind, contrib):
        for st in body:
            if isinstance(st, ast.If):
                t = self._removal_test(st.test)
                if t is None:
                    self.problems.append(f"unrecognised branch `{C.unparse(st.test, 60)}` in the leg loop")
                    self._walk_block(st.body, "?", contrib)
                    self._walk_block(st.orelse, "?", contrib)
                    continue
                other = "kept" if t == "removed" else "removed"
                if kind != "all":
                    self.problems.append("nested survival tests")
                self._walk_block(st.body, t, contrib)
                self._walk_block(st.orelse, other, contrib)
                # a delete must sit in the removed branch
                for blk, k in ((st.body, t), (st.orelse, other)):
                    for n in blk:
                        for d in ast.walk(n):
                            if d in self.deletes and k != "removed":
                                self.problems.append("a leg is deleted in the branch of kept indices")
                continue
            if isinstance(st, ast.AugAssign) and isinstance(st.target, ast.Name):
                if isinstance(st.op, ast.Mult) and self._dimlike(st.value):
                    contrib.setdefault(st.target.id, set()).add(kind)
                    continue
                self.problems.append(f"accumulation `{C.unparse(st, 60)}` is not a product of dimensions")
                continue
            if isinstance(st, ast.Assign) and len(st.targets) == 1 and isinstance(st.targets[0], ast.Name):
                t = st.targets[0].id
                v = st.value
                if isinstance(v, ast.BinOp) and isinstance(v.op, ast.Mult) and (
                        (isinstance(v.left, ast.Name) and v.left.id == t and self._dimlike(v.right))
                        or (isinstance(v.right, ast.Name) and v.right.id == t and self._dimlike(v.left))):
                    contrib.setdefault(t, set()).add(kind)
                    continue
            if isinstance(st, ast.Delete) and kind == "all":
                self.problems.append("a leg is deleted unconditionally")
            # other statements (bindings, deletes, pass) carry no accumulation

    def _dimlike(self, e):
        return (isinstance(e, ast.Name) and e.id in self.dim_names) or self._is_dim(e)

    # ---- return expression -> term
    def term(self, e, depth=0):
        C.require(depth < 12, f"{self.f.qual}: return expression too deep")
        if isinstance(e, ast.Name):
            n = e.id
            if n == self.i:
                return "I"
            if n == self.j:
                return "J"
            if n in self.extra:
                return n
            if n in self.acc:
                return self.acc[n]
            # a local with a single top-level definition after the loop
            defs = [s.value for s in self.f.node.body if isinstance(s, ast.Assign)
                    and len(s.targets) == 1 and isinstance(s.targets[0], ast.Name)
                    and s.targets[0].id == n]
            if len(defs) == 1:
                return self.term(defs[0], depth + 1)
            raise AnalysisError(f"{self.f.qual}: cannot resolve `{n}` in the returned cost")
        if isinstance(e, ast.Constant):
            return f"const:{e.value!r}"
        if isinstance(e, ast.BinOp) and isinstance(e.op, ast.Add):
            return ("sum", (self.term(e.left, depth + 1), self.term(e.right, depth + 1)))
        if isinstance(e, ast.BinOp) and isinstance(e.op, ast.Mult):
            return ("mul", (self.term(e.left, depth + 1), self.term(e.right, depth + 1)))
        if isinstance(e, ast.Call) and dotted(e.func) in ("max", "sum", "builtins.max") and not e.keywords:
            args = e.args
            if len(args) == 1 and isinstance(args[0], (ast.Tuple, ast.List)):
                args = args[0].elts
            op = "max" if dotted(e.func).endswith("max") else "sum"
            C.require(len(args) >= 2, f"{self.f.qual}: `{C.unparse(e, 60)}` not understood")
            return (op, tuple(self.term(a, depth + 1) for a in args))
        raise AnalysisError(f"{self.f.qual}: returned cost `{C.unparse(e, 80)}` uses an "
                            f"operation the signature analysis does not model")

    def signature(self):
        rets = [n for n in walk_local(self.f.node) if isinstance(n, ast.Return)]
        C.require(len(rets) == 1 and rets[0].value is not None,
                  f"{self.f.qual}: expected exactly one return")
        return _canon(self.term(rets[0].value))


def _parser_table(ctx):
    """objective name -> (function name, partial keyword names) read off the
    `if minimize == "<name>": return <fn>` chain."""
    f = ctx.p.func(C.BASIC, PARSER)
    out = {}
    m = f.module
    for n in walk_local(f.node):
        if not isinstance(n, ast.If):
            continue
        t = n.test
        if not (isinstance(t, ast.Compare) and len(t.ops) == 1 and isinstance(t.ops[0], ast.Eq)
                and isinstance(t.comparators[0], ast.Constant)
                and isinstance(t.comparators[0].value, str)):
            continue
        name = t.comparators[0].value
        rets = [s for s in n.body if isinstance(s, ast.Return)]
        if not rets:
            continue
        v = rets[0].value
        kws = ()
        if isinstance(v, ast.Call) and (dotted(v.func) or "").endswith("partial") and v.args:
            kws = tuple(k.arg for k in v.keywords)
            v = v.args[0]
        fn = dotted(v)
        out.setdefault(name, []).append((fn, kws, n))
    return f, out


def rule_costfn(ctx):
    r = RuleResult("C09-COSTFN", "step-cost functions implement the objectives' definitions", 12)
    pf, table = _parser_table(ctx)
    m = pf.module
    sigs = {}
    for name, want in SPEC.items():
        key = ctx.key(pf, "C09-COSTFN", name)
        entries = table.get(name)
        if not entries:
            r.violation(key, pf.loc, f"objective '{name}' is no longer dispatched by name "
                        f"in {PARSER}")
            continue
        fns = {e[0] for e in entries}
        if len(fns) != 1:
            r.violation(key, C.loc(pf, entries[0][2]), f"objective '{name}' is mapped to several "
                        f"functions {sorted(map(str, fns))}")
            continue
        fn, kws, node = entries[0]
        f = ctx.p.try_func(C.BASIC, fn) if fn else None
        if f is None:
            raise AnalysisError(f"{PARSER}: '{name}' returns `{fn}` which is not a function of {C.BASIC}")
        if fn not in sigs:
            cf = _CostFn(ctx, f)
            sigs[fn] = (cf, cf.signature())
        cf, sig = sigs[fn]
        if "factor" in repr(want) and not (set(cf.extra) <= set(kws)) :
            r.violation(key, C.loc(pf, node), f"'{name}' returns {fn} without binding "
                        f"{sorted(set(cf.extra) - set(kws))}")
            continue
        want_c = _canon(want)
        # the weighting parameter may have any name
        sig_n = sig
        if cf.extra:
            sig_n = _rename(sig, cf.extra[0], "factor")
        if sig_n == want_c:
            r.ok(key, C.loc(pf, node), f"'{name}' -> {fn}: {_show(sig_n)}")
        else:
            r.violation(key, C.loc(pf, node), f"'{name}' is minimised with {fn}, whose step cost is "
                        f"{_show(sig_n)}; the objective is defined as {_show(want_c)}",
                        function=f.key)
    # per-function clauses
    for fn, (cf, sig) in sorted(sigs.items()):
        f = cf.f
        k = ctx.key(f, "C09-COSTFN", "skeleton")
        if cf.problems:
            r.violation(k, f.loc, "; ".join(sorted(set(cf.problems))))
        elif cf.deletes and not cf.reverse_ok:
            r.violation(k, f.loc, "legs are deleted while the loop runs forward: the element "
                        "after every removed index is skipped (its dimension is never counted "
                        "and it is never removed)")
        elif not cf.deletes:
            r.violation(k, f.loc, "contracted indices are no longer removed from the merged legs: "
                        "the subgraph's memoised legs keep summed indices")
        else:
            r.ok(k, f.loc, f"reverse index loop, delete iff count == appearances; accumulators {cf.acc}")
    # every distinct objective uses a distinct function
    used = {}
    for name in SPEC:
        for fn, kws, node in table.get(name, []):
            used.setdefault(fn, set()).add(name)
    for fn, names in sorted(used.items(), key=lambda x: str(x[0])):
        k = f"{C.BASIC}::{PARSER}::C09-COSTFN::shared::{fn}"
        if len(names) > 1:
            r.violation(k, pf.loc, f"objectives {sorted(names)} share the step-cost function {fn}")
        else:
            r.ok(k, pf.loc, f"{fn} serves only {sorted(names)}")
    return r


def _rename(t, a, b):
    if isinstance(t, str):
        return b if t == a else t
    return _canon((t[0], tuple(_rename(k, a, b) for k in t[1])))


def _show(t):
    if isinstance(t, str):
        return {"I": "score_i", "J": "score_j", "F": "flops", "S": "size"}.get(t, t)
    op, kids = t
    if op == "sum":
        return " + ".join(_show(k) for k in kids)
    if op == "mul":
        return "*".join(_show(k) for k in kids)
    return f"{op}({', '.join(_show(k) for k in kids)})"


# ------------------------------------------------------------------ DP

def _dp(ctx):
    return ctx.p.func(C.BASIC, DP)


def _sieve_loop(f):
    ws = [n for n in f.node.body if isinstance(n, ast.While)]
    C.require(len(ws) == 1, f"{f.qual}: expected one top-level sieve loop")
    return ws[0]


def _table_name(f, w):
    """name of the list of per-size memo tables (subscripted in the sieve test)"""
    t = w.test
    if isinstance(t, ast.UnaryOp) and isinstance(t.op, ast.Not):
        t = t.operand
    if isinstance(t, ast.Subscript) and isinstance(t.value, ast.Name):
        return t.value.id, t.slice
    if isinstance(t, ast.Compare) and isinstance(t.left, ast.Call) and dotted(t.left.func) == "len":
        a = t.left.args[0]
        if isinstance(a, ast.Subscript) and isinstance(a.value, ast.Name):
            return a.value.id, a.slice
    raise AnalysisError(f"{f.qual}: sieve loop test `{C.unparse(w.test)}` not understood")


def rule_dp(ctx):
    r = RuleResult("C09-DP", "memo overwrite, sieve skip and search_outer discipline of the DP", 5)
    f = _dp(ctx)
    w = _sieve_loop(f)
    tab, _ = _table_name(f, w)
    parents = f.module.parents
    # aliases of one size's table:  contractions_m = contractions[m]
    aliases = {}
    for n in ast.walk(w):
        if isinstance(n, ast.Assign) and len(n.targets) == 1 and isinstance(n.targets[0], ast.Name) \
                and isinstance(n.value, ast.Subscript) and dotted(n.value.value) == tab:
            aliases[n.targets[0].id] = n.value.slice

    def is_memo(e):
        return (isinstance(e, ast.Name) and e.id in aliases) or \
            (isinstance(e, ast.Subscript) and dotted(e.value) == tab)

    # the cost call and the name of the new score
    score_names = set()
    params = set(f.params)
    cap = "cost_cap" if "cost_cap" in params else None
    C.require(cap is not None, f"{f.qual}: parameter cost_cap not found")
    cost_fn_names = set()
    for n in f.node.body:
        if isinstance(n, ast.Assign) and isinstance(n.value, ast.Call) and \
                dotted(n.value.func) == PARSER and isinstance(n.targets[0], ast.Name):
            cost_fn_names.add(n.targets[0].id)
    C.require(cost_fn_names, f"{f.qual}: the step-cost function is no longer obtained from {PARSER}")
    operand_scores = set()
    for n in ast.walk(w):
        if isinstance(n, ast.Assign) and isinstance(n.value, ast.Call) and \
                dotted(n.value.func) in cost_fn_names and isinstance(n.targets[0], ast.Name):
            score_names.add(n.targets[0].id)
            for a in n.value.args[3:5]:
                if isinstance(a, ast.Name):
                    operand_scores.add(a.id)
    C.require(score_names, f"{f.qual}: call of the step-cost function not found in the sieve loop")

    # (1) memo stores
    stores = [n for n in ast.walk(w) if isinstance(n, ast.Subscript) and isinstance(n.ctx, ast.Store)
              and is_memo(n.value)]
    C.require(stores, f"{f.qual}: no store into the per-subgraph memo found")
    for s in stores:
        st = C.enclosing_stmt(f, s)
        k = ctx.key(f, "C09-DP", "memo-store")
        val = st.value if isinstance(st, ast.Assign) else None
        if not isinstance(val, ast.Tuple):
            raise AnalysisError(f"{f.qual}: memo entry `{C.unparse(st, 80)}` is not a tuple literal")
        pos = [i for i, e in enumerate(val.elts) if isinstance(e, ast.Name) and e.id in score_names]
        if len(pos) != 1:
            r.violation(k, C.loc(f, st), "the memo entry does not record the new score exactly once",
                        entry=C.unparse(val))
            continue
        pos = pos[0]
        ifs = C.enclosing_ifs(f, st)
        guard = None
        for i, in_true in ifs:
            if in_true and any(isinstance(c, ast.Compare) for c in ast.walk(i.test)):
                guard = i
                break
        if guard is None:
            r.violation(k, C.loc(f, st), "the memo of a subgraph is overwritten unconditionally: "
                        "a later, worse way of building the same subgraph replaces the best one")
            continue
        ok, why = _improvement_guard(guard.test, score_names, pos, f, s, is_memo)
        if ok:
            # the entry compared with is the one of the subgraph being stored
            keytxt = C.unparse(s.slice)
            for x in ast.walk(guard.test):
                if isinstance(x, ast.Subscript) and isinstance(x.value, ast.Name) and \
                        isinstance(x.slice, ast.Constant):
                    cur = x.value.id
                    defs = [a.value for a in ast.walk(w) if isinstance(a, ast.Assign)
                            and any(isinstance(t, ast.Name) and t.id == cur for t in a.targets)]
                    good = len(defs) == 1 and (
                        (isinstance(defs[0], ast.Call) and isinstance(defs[0].func, ast.Attribute)
                         and defs[0].func.attr == "get" and is_memo(defs[0].func.value)
                         and defs[0].args and C.unparse(defs[0].args[0]) == keytxt
                         and C.unparse(defs[0].func.value) == C.unparse(s.value))
                        or (isinstance(defs[0], ast.Subscript) and is_memo(defs[0].value)
                            and C.unparse(defs[0].slice) == keytxt
                            and C.unparse(defs[0].value) == C.unparse(s.value))
                        # `memo[k] if k in memo else None`
                        or (isinstance(defs[0], ast.IfExp) and isinstance(defs[0].body, ast.Subscript) and is_memo(defs[0].body.value)
                            and C.unparse(defs[0].body.slice) == keytxt and C.unparse(defs[0].body.value) == C.unparse(s.value)
                            and isinstance(defs[0].orelse, ast.Constant) and defs[0].orelse.value is None))
                    if not good:
                        ok, why = False, (f"`{cur}` (the entry the new score is compared with) is not the "
                                          f"stored entry of `{keytxt}` in the table that is written")
        if ok:
            r.ok(k, C.loc(f, st), f"stored iff absent or better: `{C.unparse(guard.test, 80)}`; "
                 f"score at tuple position {pos}")
        else:
            r.violation(k, C.loc(f, st), why, guard=C.unparse(guard.test))

    # (1b) layout of a memo entry: seeds and readers agree with the writer
    layout_pos = None
    for s in stores:
        st = C.enclosing_stmt(f, s)
        if isinstance(st, ast.Assign) and isinstance(st.value, ast.Tuple):
            p = [i for i, e in enumerate(st.value.elts) if isinstance(e, ast.Name) and e.id in score_names]
            if len(p) == 1:
                layout_pos = (p[0], len(st.value.elts))
    if layout_pos is not None:
        pos, width = layout_pos
        k = ctx.key(f, "C09-DP", "entry-layout")
        probs = []
        # seeds (before the sieve loop): score constant 0 at the same position
        seeds = 0
        for n in ast.walk(f.node):
            if isinstance(n, ast.Subscript) and isinstance(n.ctx, ast.Store) and \
                    isinstance(n.value, ast.Subscript) and dotted(n.value.value) == tab and \
                    not any(n is x for x in ast.walk(w)):
                st = C.enclosing_stmt(f, n)
                v = st.value if isinstance(st, ast.Assign) else None
                if not isinstance(v, ast.Tuple) or len(v.elts) != width:
                    probs.append(f"seed entry `{C.unparse(st, 60)}` has another shape than the entries written by the search")
                    continue
                seeds += 1
                e = v.elts[pos]
                if isinstance(e, ast.Name):
                    ds = [a.value for a in ast.walk(f.node) if isinstance(a, ast.Assign)
                          and any(isinstance(t, ast.Name) and t.id == e.id for t in a.targets)]
                    e = ds[0] if len(ds) == 1 else e
                if not (isinstance(e, ast.Constant) and e.value == 0):
                    probs.append(f"a single tensor is seeded with score `{C.unparse(e)}` at position {pos}, not 0")
        if seeds == 0:
            probs.append("no seed entries for single tensors found")
        # readers: the loop target unpacking entries
        readers = 0
        for lp in ast.walk(w):
            if isinstance(lp, ast.For):
                for t in ast.walk(lp.target):
                    if isinstance(t, ast.Tuple) and len(t.elts) == width and \
                            all(isinstance(e, ast.Name) for e in t.elts):
                        nm = t.elts[pos].id
                        if any(isinstance(e, ast.Name) and e.id in operand_scores for e in t.elts):
                            readers += 1
                            if nm not in operand_scores:
                                probs.append(f"entries are unpacked as `{C.unparse(t)}`: the operand score is "
                                             f"not taken from position {pos}")
        if readers < 2:
            probs.append("the two operand entries are not unpacked into (legs, score, path)-shaped tuples")
        if probs:
            r.violation(k, f.loc, "; ".join(probs))
        else:
            r.ok(k, f.loc, f"{seeds} seed site(s) with score 0 and {readers} readers agree on the "
                 f"score position {pos} of {width}")

    # (2) skips
    inner_fors = [n for n in ast.walk(w) if isinstance(n, ast.For)]
    for n in ast.walk(w):
        if isinstance(n, (ast.Break, ast.Return)):
            # a break inside the leg-merging while loop would be a different construct; none today
            r.violation(ctx.key(f, "C09-DP", "early-exit"), C.loc(f, n),
                        "the sieve round is left early: candidates not yet examined in this round "
                        "may be cheaper than the complete solution found first")
    if not any(isinstance(n, (ast.Break, ast.Return)) for n in ast.walk(w)):
        r.ok(ctx.key(f, "C09-DP", "early-exit"), C.loc(f, w), "no break/return inside the sieve loop")
    n_skip = 0
    for n in ast.walk(w):
        if not isinstance(n, ast.Continue):
            continue
        ifs = C.enclosing_ifs(f, n)
        C.require(ifs, f"{f.qual}: unconditional continue")
        test = ifs[0][0].test
        names = {x.id for x in ast.walk(test) if isinstance(x, ast.Name)}
        txt = C.unparse(test, 80)
        if names & score_names or cap in names or names & operand_scores:
            n_skip += 1
            k = ctx.key(f, "C09-DP", "sieve-skip")
            good = isinstance(test, ast.Compare) and len(test.ops) == 1 and (
                (isinstance(test.left, ast.Name) and test.left.id in score_names
                 and isinstance(test.ops[0], (ast.Gt, ast.GtE))
                 and dotted(test.comparators[0]) == cap)
                or (dotted(test.left) == cap and isinstance(test.ops[0], (ast.Lt, ast.LtE))
                    and isinstance(test.comparators[0], ast.Name)
                    and test.comparators[0].id in score_names))
            if good and ifs[0][1]:
                r.ok(k, C.loc(f, n), f"candidate skipped iff `{txt}`")
            else:
                r.violation(k, C.loc(f, n), f"score-based skip `{txt}` is not 'new score exceeds the "
                            f"cap': candidates are dropped that a later, wider round never revisits "
                            f"or that are within the cap")
        elif any(isinstance(x, ast.BitAnd) for x in ast.walk(test)):
            r.ok(ctx.key(f, "C09-DP", "overlap-skip"), C.loc(f, n), f"overlapping subgraphs `{txt}`")
        elif isinstance(test, ast.Name):
            # the outer-product flag, checked below
            flag = test.id
            k = ctx.key(f, "C09-DP", "outer-skip")
            assigns = [a for a in ast.walk(f.node) if isinstance(a, ast.Assign)
                       and any(isinstance(t, ast.Name) and t.id == flag for t in a.targets)]
            inits = [a for a in assigns if not (isinstance(a.value, ast.Constant))]
            clears = [a for a in assigns if isinstance(a.value, ast.Constant)]
            init_ok = len(inits) == 1 and isinstance(inits[0].value, ast.UnaryOp) and \
                isinstance(inits[0].value.op, ast.Not) and dotted(inits[0].value.operand) == "search_outer"
            clears_ok = bool(clears) and all(a.value.value is False for a in clears)
            shared_ok = True
            for a in clears:
                blk = _block_of(parents, a)
                has_sum = any(isinstance(x, ast.BinOp) and isinstance(x.op, ast.Add)
                              and isinstance(parents.get(x), ast.Tuple) for s in blk for x in ast.walk(s))
                if not has_sum:
                    shared_ok = False
            if init_ok and clears_ok and shared_ok:
                r.ok(k, C.loc(f, n), f"`{flag}` starts as `not search_outer`, cleared only where a "
                     f"shared index is merged")
            elif not init_ok:
                r.violation(k, C.loc(f, n), f"`{flag}` is not initialised from `not search_outer`: "
                            f"outer products are skipped although the caller asked for them (or the reverse)")
            else:
                r.violation(k, C.loc(f, n), f"`{flag}` is cleared outside the shared-index branch")
        else:
            raise AnalysisError(f"{f.qual}: skip condition `{txt}` is not one of the recognised kinds "
                                f"(overlap, outer-product flag, score above cap)")
    if n_skip == 0:
        r.note("no score-based sieve skip present (every candidate is kept)")
    return r


def _block_of(parents, st):
    p = parents.get(st)
    for fld in ("body", "orelse", "finalbody"):
        blk = getattr(p, fld, None)
        if isinstance(blk, list) and any(s is st for s in blk):
            return blk
    return [st]


def _improvement_guard(test, score_names, pos, f, store, is_memo):
    """(ok, reason).  Accepts `cur is None or new < cur[pos]` (also <=, `not in`
    forms and the mirrored comparison)."""
    disj = test.values if isinstance(test, ast.BoolOp) and isinstance(test.op, ast.Or) else [test]
    cmp_ok = False
    why = "the overwrite is not guarded by a comparison of the new score with the stored one"
    for d in disj:
        if not isinstance(d, ast.Compare) or len(d.ops) != 1:
            continue
        l, op, rr = d.left, d.ops[0], d.comparators[0]
        if isinstance(op, (ast.Is, ast.IsNot, ast.In, ast.NotIn)):
            continue

        def is_new(e):
            return isinstance(e, ast.Name) and e.id in score_names

        def stored_idx(e):
            if isinstance(e, ast.Subscript) and isinstance(e.slice, ast.Constant):
                return e.slice.value
            return None

        if is_new(l) and stored_idx(rr) is not None:
            idx, o = stored_idx(rr), op
        elif is_new(rr) and stored_idx(l) is not None:
            idx = stored_idx(l)
            o = {ast.Gt: ast.Lt, ast.GtE: ast.LtE, ast.Lt: ast.Gt, ast.LtE: ast.GtE}.get(type(op), type(op))()
        else:
            why = (f"the comparison `{C.unparse(d, 60)}` does not compare the new score with "
                   f"the stored entry's score")
            continue
        if not isinstance(o, (ast.Lt, ast.LtE)):
            why = (f"`{C.unparse(d, 60)}`: the stored entry is replaced when the new score is "
                   f"*worse*")
            continue
        if idx != pos:
            why = (f"the stored score is read at tuple position {idx} but written at position "
                   f"{pos}: the comparison is against another field")
            continue
        cmp_ok = True
    if cmp_ok:
        return True, ""
    return False, why


# ------------------------------------------------------------------ ENUM

def _ev(e, env):
    if isinstance(e, ast.Constant) and isinstance(e.value, int):
        return e.value
    if isinstance(e, ast.Name):
        if e.id in env:
            return env[e.id]
        raise AnalysisError(f"cannot evaluate name `{e.id}` in a range bound")
    if isinstance(e, ast.UnaryOp) and isinstance(e.op, ast.USub):
        return -_ev(e.operand, env)
    if isinstance(e, ast.BinOp):
        a, b = _ev(e.left, env), _ev(e.right, env)
        if isinstance(e.op, ast.Add):
            return a + b
        if isinstance(e.op, ast.Sub):
            return a - b
        if isinstance(e.op, ast.Mult):
            return a * b
        if isinstance(e.op, ast.FloorDiv):
            return a // b
        if isinstance(e.op, ast.Mod):
            return a % b
        if isinstance(e.op, ast.RShift):
            return a >> b
    if isinstance(e, ast.Call) and dotted(e.func) == "len" and "len" in env:
        return env["len"]
    if isinstance(e, ast.Call) and dotted(e.func) in ("min", "max") and not e.keywords:
        vals = [_ev(a, env) for a in e.args]
        return min(vals) if dotted(e.func) == "min" else max(vals)
    raise AnalysisError(f"cannot evaluate `{C.unparse(e, 60)}` as integer arithmetic")


def _range(call, env):
    C.require(isinstance(call, ast.Call) and dotted(call.func) == "range" and not call.keywords,
              f"loop does not iterate a range: `{C.unparse(call, 60)}`")
    a = [_ev(x, env) for x in call.args]
    return list(range(*a))


def rule_enum(ctx):
    r = RuleResult("C09-ENUM", "all bipartition sizes of every subgraph size are enumerated", 3)
    f = _dp(ctx)
    w = _sieve_loop(f)
    tab, full = _table_name(f, w)
    # nterms name
    nname = None
    for n in f.node.body:
        if isinstance(n, ast.Assign) and isinstance(n.value, ast.Call) and dotted(n.value.func) == "len" \
                and isinstance(n.targets[0], ast.Name):
            nname = n.targets[0].id
            break
    C.require(nname is not None, f"{f.qual}: number of terms not bound to a local")
    outer = [s for s in w.body if isinstance(s, ast.For)]
    C.require(len(outer) == 1 and isinstance(outer[0].target, ast.Name),
              f"{f.qual}: expected one loop over subgraph sizes in the sieve loop")
    fm = outer[0]
    inner = [s for s in fm.body if isinstance(s, ast.For)]
    C.require(len(inner) == 1 and isinstance(inner[0].target, ast.Name),
              f"{f.qual}: expected one loop over bipartition sizes")
    fk = inner[0]
    mname, kname = fm.target.id, fk.target.id
    bad_m = bad_k = None
    for nt in range(2, 25):
        env = {nname: nt}
        ms = _range(fm.iter, env)
        if bad_m is None and (sorted(set(ms)) != list(range(2, nt + 1)) or ms != sorted(ms)):
            bad_m = (nt, ms)
        for mm in ms:
            env2 = {nname: nt, mname: mm}
            ks = _range(fk.iter, env2)
            got = {frozenset((k, mm - k)) for k in ks if 0 < k < mm}
            want = {frozenset((a, mm - a)) for a in range(1, mm)}
            if bad_k is None and (got != want or any(not (0 < k < mm) for k in ks)):
                bad_k = (mm, ks)
    k1 = ctx.key(f, "C09-ENUM", "sizes")
    if bad_m:
        r.violation(k1, C.loc(f, fm), f"for {bad_m[0]} terms the subgraph sizes visited are {bad_m[1]}, "
                    f"not 2..{bad_m[0]} in increasing order (larger subgraphs are built from smaller ones)")
    else:
        r.ok(k1, C.loc(f, fm), f"`{C.unparse(fm.iter)}` = 2..nterms ascending (nterms = 2..24)")
    k2 = ctx.key(f, "C09-ENUM", "bipartitions")
    if bad_k:
        mm, ks = bad_k
        missing = sorted(tuple(sorted(x)) for x in
                         ({frozenset((a, mm - a)) for a in range(1, mm)} - {frozenset((k, mm - k)) for k in ks}))
        r.violation(k2, C.loc(f, fk), f"for subgraph size {mm} the split sizes k = {ks} miss {missing}: "
                    f"trees whose top split has these sizes are never built")
    else:
        r.ok(k2, C.loc(f, fk), f"`{C.unparse(fk.iter)}` covers every unordered split of m (m = 2..24)")
    # product vs combinations
    k3 = ctx.key(f, "C09-ENUM", "pairs")
    ifs = [s for s in fk.body if isinstance(s, ast.If)]
    pair_if = None
    for s in ifs:
        names = {x.id for x in ast.walk(s.test) if isinstance(x, ast.Name)}
        if kname in names and mname in names:
            pair_if = s
            break
    if pair_if is None:
        # a single product for every k is complete as well
        prods = [c for c in ast.walk(fk) if isinstance(c, ast.Call) and (dotted(c.func) or "").endswith("product")]
        if prods and _product_covers(prods[0], tab, kname, mname):
            r.ok(k3, C.loc(f, fk), "full product of both tables for every split")
        else:
            raise AnalysisError(f"{f.qual}: pair enumeration not understood")
        return r
    t = pair_if.test
    C.require(isinstance(t, ast.Compare) and len(t.ops) == 1, f"{f.qual}: split test not a comparison")
    # decide which branch is 'unequal sizes' by evaluating the test for (m, k) = (5, 2)
    lhs, rhs = _ev(t.left, {mname: 5, kname: 2}), _ev(t.comparators[0], {mname: 5, kname: 2})
    op = t.ops[0]
    truth = {ast.NotEq: lhs != rhs, ast.Eq: lhs == rhs, ast.Lt: lhs < rhs, ast.Gt: lhs > rhs,
             ast.LtE: lhs <= rhs, ast.GtE: lhs >= rhs}.get(type(op))
    C.require(truth is not None, f"{f.qual}: split test operator not understood")
    unequal = pair_if.body if truth else pair_if.orelse
    equal = pair_if.orelse if truth else pair_if.body
    # and for the balanced split (4, 2) the other branch must be taken
    lhs, rhs = _ev(t.left, {mname: 4, kname: 2}), _ev(t.comparators[0], {mname: 4, kname: 2})
    truth_eq = {ast.NotEq: lhs != rhs, ast.Eq: lhs == rhs, ast.Lt: lhs < rhs, ast.Gt: lhs > rhs,
                ast.LtE: lhs <= rhs, ast.GtE: lhs >= rhs}.get(type(op))
    prods = [c for s in unequal for c in ast.walk(s)
             if isinstance(c, ast.Call) and (dotted(c.func) or "").endswith("product")]
    if truth_eq == truth:
        r.violation(k3, C.loc(f, pair_if), f"`{C.unparse(t)}` does not separate balanced from "
                    f"unbalanced splits")
    elif not prods or not _product_covers(prods[0], tab, kname, mname):
        r.violation(k3, C.loc(f, pair_if), "splits into parts of different sizes are not enumerated "
                    "as the full product of the two size tables: combinations across the tables are lost",
                    branch=C.unparse(unequal[0], 100) if unequal else "")
    else:
        eq_calls = [dotted(c.func) for s in equal for c in ast.walk(s) if isinstance(c, ast.Call)]
        if any((n or "").endswith(("combinations", "product")) for n in eq_calls):
            r.ok(k3, C.loc(f, pair_if), "unequal sizes: product of both tables; equal sizes: "
                 "combinations/product of the one table")
        else:
            r.violation(k3, C.loc(f, pair_if), "balanced splits are not enumerated")
    return r


def _product_covers(call, tab, kname, mname):
    idx = set()
    for a in call.args:
        for s in ast.walk(a):
            if isinstance(s, ast.Subscript) and dotted(s.value) == tab:
                try:
                    idx.add(_ev(s.slice, {mname: 5, kname: 2}))
                except AnalysisError:
                    return False
    return idx == {2, 3}


# ------------------------------------------------------------------ CAP

def rule_cap(ctx):
    r = RuleResult("C09-CAP", "the sieve widens on every round and ends only on a complete solution", 2)
    f = _dp(ctx)
    w = _sieve_loop(f)
    tab, full = _table_name(f, w)
    nname = None
    for n in f.node.body:
        if isinstance(n, ast.Assign) and isinstance(n.value, ast.Call) and dotted(n.value.func) == "len" \
                and isinstance(n.targets[0], ast.Name):
            nname = n.targets[0].id
            break
    k1 = ctx.key(f, "C09-CAP", "until-complete")
    try:
        v = _ev(full, {nname: 7})
    except AnalysisError:
        v = None
    negated = isinstance(w.test, ast.UnaryOp) and isinstance(w.test.op, ast.Not) or \
        (isinstance(w.test, ast.Compare) and isinstance(w.test.ops[0], ast.Eq))
    if v == 7 and negated:
        r.ok(k1, C.loc(f, w), f"loops while `{C.unparse(w.test)}` (table of the full network empty)")
    else:
        r.violation(k1, C.loc(f, w), f"the sieve loop `{C.unparse(w.test)}` does not run until the table "
                    f"of the full network is non-empty")
    # the table of size nterms + 1 entries
    fl = ctx.flow(f)
    cfg = fl.cfg
    head = cfg.node_of(w)
    ups = []
    for n in ast.walk(w):
        if isinstance(n, ast.AugAssign) and dotted(n.target) == "cost_cap":
            grows = isinstance(n.value, ast.Constant) and isinstance(n.value.value, (int, float)) and (
                (isinstance(n.op, ast.Mult) and n.value.value > 1)
                or (isinstance(n.op, ast.Add) and n.value.value > 0)
                or (isinstance(n.op, ast.Pow) and n.value.value > 1))
            ups.append((n, grows))
        elif isinstance(n, ast.Assign) and any(dotted(t) == "cost_cap" for t in n.targets):
            v = n.value
            grows = isinstance(v, ast.BinOp) and dotted(v.left) == "cost_cap" and \
                isinstance(v.right, ast.Constant) and (
                    (isinstance(v.op, ast.Mult) and v.right.value > 1)
                    or (isinstance(v.op, ast.Add) and v.right.value > 0))
            ups.append((n, grows))
    k2 = ctx.key(f, "C09-CAP", "widens")
    if not ups:
        r.violation(k2, C.loc(f, w), "cost_cap is never increased inside the sieve loop")
        return r
    bad = [n for n, g in ups if not g]
    if bad:
        r.violation(k2, C.loc(f, bad[0]), f"`{C.unparse(bad[0])}` does not increase the cap")
        return r
    nodes = [cfg.node_of(n).id for n, _ in ups if cfg.node_of(n) is not None]
    if cfg.all_paths_pass(head.id, nodes, dst=head.id):
        r.ok(k2, C.loc(f, ups[0][0]), f"every round passes `{C.unparse(ups[0][0])}`")
    else:
        p = cfg.path_avoiding(head.id, nodes, dst=head.id)
        r.violation(k2, C.loc(f, w), "a sieve round can finish without widening the cap",
                    path=cfg.describe_path(p) if p else "")
    return r


# ------------------------------------------------------------------ SORTED / FACTOR

def rule_sorted(ctx):
    """The DP merges the legs of two subgraphs with a sorted simultaneous iteration; that is only a
    merge if both inputs are sorted, so every leg list it stores must itself come out of the merge
    (seed C09_2 added a concatenating fast path) and the processor's initial legs must be sorted."""
    r = RuleResult("C09-SORTED", "legs handled by the DP are sorted merges of sorted legs", 2)
    f = _dp(ctx)
    w = _sieve_loop(f)
    fl = ctx.flow(f)
    cost_fn_names = set()
    for n in f.node.body:
        if isinstance(n, ast.Assign) and isinstance(n.value, ast.Call) and dotted(n.value.func) == PARSER:
            cost_fn_names.add(n.targets[0].id)
    calls = [n for n in ast.walk(w) if isinstance(n, ast.Call) and dotted(n.func) in cost_fn_names]
    C.require(calls and calls[0].args and isinstance(calls[0].args[0], ast.Name),
              f"{f.qual}: step-cost call with a named leg list not found")
    legs = calls[0].args[0].id
    at = fl.cfg.containing(calls[0], f.module.parents)
    k = ctx.key(f, "C09-SORTED", "merge-only")
    # the merge loop: a while whose test compares two pointers with two lengths
    merges = [n for n in ast.walk(w) if isinstance(n, ast.While) and n is not w]
    C.require(merges, f"{f.qual}: sorted merge loop not found")
    mw = merges[0]
    ptrs = {x.id for x in ast.walk(mw.test) if isinstance(x, ast.Name)}
    bad = None
    for d in fl.defs_reaching(legs, at.id):
        if d.kind != "assign":
            continue
        if d.strong:
            if not (isinstance(d.value, ast.List) and not d.value.elts):
                bad = f"`{legs} = {C.unparse(d.value, 50)}`"
        else:
            st = fl.cfg.nodes[d.node].ast
            call = None
            for x in ast.walk(st):
                if isinstance(x, ast.Call) and isinstance(x.func, ast.Attribute) and dotted(x.func.value) == legs:
                    call = x
            if call is None:
                continue
            if call.func.attr == "append":
                if not any(st is y for y in ast.walk(mw)):
                    bad = f"`{C.unparse(call, 50)}` outside the merge loop"
            elif call.func.attr == "extend":
                a = call.args[0] if call.args else None
                tail = isinstance(a, ast.Subscript) and isinstance(a.slice, ast.Slice) and a.slice.upper is None \
                    and isinstance(a.slice.lower, ast.Name) and a.slice.lower.id in ptrs
                if not tail:
                    bad = f"`{C.unparse(call, 50)}` is not the remaining tail of a merged operand"
            else:
                bad = f"`{C.unparse(call, 50)}`"
    if bad:
        r.violation(k, C.loc(f, calls[0]), f"the legs handed to the step cost / stored in the memo can come from "
                    f"{bad}, not from the sorted merge: an unsorted leg list makes every later merge miss shared "
                    f"indices (they are never summed, never contracted, and the subtree is over-costed)")
    else:
        r.ok(k, C.loc(f, calls[0]), f"`{legs}` = [] + appends inside the merge loop + the two remaining tails")
    # initial legs sorted
    cp = ctx.p.cls(C.BASIC, "ContractionProcessor")
    init = cp.methods.get("__init__")
    k = ctx.key(init, "C09-SORTED", "initial")
    stores = [n for n in walk_local(init.node) if isinstance(n, ast.Assign) and isinstance(n.targets[0], ast.Subscript)
              and dotted(n.targets[0].value) == "self.nodes"]
    C.require(stores, "ContractionProcessor.__init__: store of the initial legs not found")
    st = stores[0]
    v = st.value
    srt = "sorted(" in C.unparse(v)
    if not srt:
        inner = v.args[0] if isinstance(v, ast.Call) and v.args else v
        nm = dotted(inner)
        blk = None
        par = init.module.parents.get(st)
        for fld in ("body", "orelse"):
            b = getattr(par, fld, None)
            if isinstance(b, list) and any(x is st for x in b):
                blk = b
        if blk is not None and nm:
            idx = [i for i, x in enumerate(blk) if x is st][0]
            srt = any(isinstance(x, ast.Expr) and isinstance(x.value, ast.Call) and isinstance(x.value.func, ast.Attribute)
                      and x.value.func.attr == "sort" and dotted(x.value.func.value) == nm for x in blk[:idx])
    if srt:
        r.ok(k, C.loc(init, st), "input legs are sorted before they are stored")
    else:
        r.violation(k, C.loc(init, st), "the legs of the input tensors are stored unsorted: the sorted merges of "
                    "the optimal and greedy searches miss shared indices")
    return r


def rule_factor(ctx):
    """'combo-{k}' / 'limit-{k}': the weight k is read from a capture group of a regular expression;
    the group must contain the whole number (a *repeated* capture group keeps only its last
    repetition - seed C09_3 turned `(\\d*)` into `(\\d)*`)."""
    import re._parser as sre  # stdlib regex parser: the pattern is analysed, not executed

    r = RuleResult("C09-FACTOR", "the objective's weight is parsed completely", 1)
    f = ctx.p.func(C.BASIC, PARSER)
    pats = [n for n in walk_local(f.node) if isinstance(n, ast.Call) and (dotted(n.func) or "").endswith("compile")
            and n.args and isinstance(n.args[0], ast.Constant) and isinstance(n.args[0].value, str)]
    if not pats:
        r.exempt(ctx.key(f, "C09-FACTOR", "pattern"), f.loc, "the weight is not parsed with a regular expression")
        return r
    pat = pats[0].args[0].value
    k = ctx.key(f, "C09-FACTOR", "pattern")
    try:
        tree = sre.parse(pat)
    except Exception as e:  # noqa: BLE001
        r.violation(k, C.loc(f, pats[0]), f"the pattern {pat!r} does not compile: {e}")
        return r
    probs = []
    digit_groups = 0

    def has_digit(items):
        for op, av in items:
            name = str(op)
            if name == "IN":
                if any(str(o) == "CATEGORY" and "DIGIT" in str(a) for o, a in av):
                    return True
                if any(str(o) == "RANGE" and a == (48, 57) for o, a in av):
                    return True
            elif name in ("MAX_REPEAT", "MIN_REPEAT"):
                if has_digit(av[2]):
                    return True
            elif name == "SUBPATTERN":
                if has_digit(av[3]):
                    return True
            elif name == "BRANCH":
                if any(has_digit(b) for b in av[1]):
                    return True
        return False

    def walk(items, repeated):
        nonlocal digit_groups
        for op, av in items:
            name = str(op)
            if name in ("MAX_REPEAT", "MIN_REPEAT"):
                lo, hi, sub = av
                walk(sub, repeated or hi > 1)
            elif name == "SUBPATTERN":
                gid, _, _, sub = av
                if gid is not None and has_digit(sub):
                    digit_groups += 1
                    if repeated:
                        probs.append(f"capture group {gid} (digits) is itself repeated: only its last repetition "
                                     f"(one digit) is kept, 'combo-32' is read as 2")
                    # inside: the digits must be repeated
                    inner_rep = any(str(o) in ("MAX_REPEAT", "MIN_REPEAT") and a[1] > 1 and has_digit(a[2]) for o, a in sub)
                    if not inner_rep and not repeated:
                        probs.append(f"capture group {gid} matches a single digit only")
                walk(sub, repeated)
            elif name == "BRANCH":
                for b in av[1]:
                    walk(b, repeated)

    walk(tree, False)
    if digit_groups == 0:
        probs.append("no capture group for the numeric weight")
    if probs:
        r.violation(k, C.loc(f, pats[0]), f"{pat!r}: " + "; ".join(probs))
    else:
        r.ok(k, C.loc(f, pats[0]), f"{pat!r}: the weight is one capture group of repeated digits")
    return r


def rule_options(ctx):
    """(seed C09_7) 'All trees when outer products are searched' / 'for each supported objective': the options a
    caller passes reach the dynamic programme as given.  In the optimal finders of the processor the parameters
    `search_outer` and `minimize` are never re-bound (the documented widening of `cost_cap` is the only option that
    changes); every delegate call hands them on unchanged."""
    r = RuleResult("C09-OPTIONS", "the caller's network, objective and outer-product option reach the DP as given", 6)
    cp = ctx.p.cls(C.BASIC, "ContractionProcessor")
    funcs = [cp.methods.get("optimize_optimal_connected"), cp.methods.get("optimize_optimal"), ctx.p.func(C.BASIC, "optimize_optimal")]
    C.require(all(f is not None for f in funcs), "optimal finders not found")
    for f in funcs:
        params = [a.arg for a in f.node.args.posonlyargs + f.node.args.args + f.node.args.kwonlyargs]
        # (seed C09_9) the module-level finder also hands the *network* on as given: an index of size 1 multiplies no cost
        # but still connects tensors — stripping it changes which trees are searched
        net = ("inputs", "output", "size_dict") if f.cls is None else ()
        for opt in ("search_outer", "minimize") + net:
            if opt not in params:
                continue
            k = ctx.key(f, "C09-OPTIONS", opt)
            rebinds = []
            for n in walk_local(f.node):
                tg = []
                if isinstance(n, ast.Assign):
                    tg = n.targets
                elif isinstance(n, (ast.AugAssign, ast.AnnAssign)):
                    tg = [n.target]
                elif isinstance(n, ast.NamedExpr):
                    tg = [n.target]
                for t in tg:
                    for e in ast.walk(t):
                        if isinstance(e, ast.Name) and e.id == opt:
                            val = getattr(n, "value", None)
                            # a normalisation of the objective's spelling (`minimize = minimize.lower()`) keeps the question
                            if opt == "minimize" and isinstance(n, ast.Assign) and val is not None and \
                                    any(isinstance(x, ast.Name) and x.id == opt for x in ast.walk(val)) and not C.enclosing_ifs(f, n):
                                continue
                            # a container-type conversion of the network (`inputs = tuple(map(tuple, inputs))`) keeps it
                            if opt in net and isinstance(n, ast.Assign) and val is not None and \
                                    any(isinstance(x, ast.Name) and x.id == opt for x in ast.walk(val)) and \
                                    not any(isinstance(x, (ast.Compare, ast.IfExp, ast.BinOp, ast.Subscript)) or
                                            (isinstance(x, ast.comprehension) and x.ifs) for x in ast.walk(val)):
                                continue
                            rebinds.append(n)
            # delegates receive the option itself
            passed_bad = None
            for c in (x for x in walk_local(f.node) if isinstance(x, ast.Call)):
                for kw in c.keywords:
                    if kw.arg == opt and not (isinstance(kw.value, ast.Name) and kw.value.id == opt):
                        passed_bad = kw
            if rebinds:
                g = [C.unparse(i_.test, 60) for i_, t in C.enclosing_ifs(f, rebinds[0])]
                what = "the network is altered before the search — the path is optimal for another network (fewer connections, " \
                       "other components)" if opt in net else \
                       "the result is optimal for another question (e.g. over outer-product-free trees only although outer products were asked for)"
                r.violation(k, C.loc(f, rebinds[0]), f"`{C.unparse(rebinds[0], 60)}`" + (f" under `{g[0]}`" if g else "") +
                            f": the caller's `{opt}` is replaced before the search — {what}")
            elif passed_bad is not None:
                r.violation(k, C.loc(f, passed_bad.value), f"`{opt}={C.unparse(passed_bad.value, 50)}` handed to a delegate instead of the caller's value")
            else:
                r.ok(k, f.loc, f"`{opt}` is never re-bound and handed on as given")
    return r


def rule_presimp(ctx):
    """(seed C09_6) The property's premise — nothing to pre-simplify — makes `simplify()` a no-op only if each
    simplification fires exactly in the situation the premise names.  'An index shared by all tensors': the batch
    test compares the number of *tensors carrying* the index (the per-index entry of `edges`) with the number of
    tensors; the appearance table also counts the output, so testing it removes an output index that one tensor
    lacks, a vector over it becomes a scalar and a contraction is forced before the DP runs."""
    r = RuleResult("C09-PRESIMP", "the batch-index simplification fires only for an index on every tensor", 1)
    cp = ctx.p.cls(C.BASIC, "ContractionProcessor")
    f = cp.methods.get("simplify_batch")
    C.require(f is not None, "simplify_batch not found")
    fl = ctx.flow(f)
    k = ctx.key(f, "C09-PRESIMP", "batch")
    cmps = [n for n in walk_local(f.node) if isinstance(n, ast.Compare) and len(n.ops) == 1 and isinstance(n.ops[0], (ast.GtE, ast.Eq, ast.Gt, ast.LtE, ast.Lt))]
    C.require(cmps, "simplify_batch: the test that selects an index not found")
    c = cmps[0]
    at = fl.node_of_expr(c)
    dl = fl.deps(c.left, at, "may")
    dr = fl.deps(c.comparators[0], at, "may")

    def attrs(d):
        return {x[2] for x in d if x[0] == "attr"} | {x[1] for x in d if x[0] == "attrname"}
    al, ar_ = attrs(dl), attrs(dr)
    if isinstance(c.ops[0], (ast.LtE, ast.Lt)):
        al, ar_ = ar_, al
    if "appearances" in al | ar_:
        r.violation(k, C.loc(f, c), f"`{C.unparse(c)}` counts appearances — the output included — instead of the tensors carrying the index: an "
                    "output index that one tensor lacks is dropped from all others, although the network has no index shared by all tensors")
    elif "edges" in al and "nodes" in ar_ and not isinstance(c.ops[0], (ast.Gt, ast.Lt)):
        r.ok(k, C.loc(f, c), "number of tensors carrying the index (edges) against the number of tensors (nodes)")
    else:
        r.violation(k, C.loc(f, c), f"`{C.unparse(c)}`: not a comparison of the index's carriers (`edges`) with the number of tensors (`nodes`)")
    return r


def rule_costeval(ctx):
    """Shared with C18-PUREFNS (engine E9): the six step-cost functions of the optimal finder, evaluated on a bounded
    family of term pairs, return their objective's definition and leave exactly the surviving legs behind."""
    from .c18 import rule_purefns as src

    return C.reuse_rule(ctx, src, "C18-PUREFNS", "C09-COSTEVAL", "the step-cost functions equal the objectives' definitions on a bounded family",
                        lambda i: "compute_con_cost" in i.construct or "compute_contracted" in i.construct, 7)


def _net_tables(inputs, output, sizes):
    """index numbering, sorted (index, count) legs per tensor and global appearance counts, as the processor builds them"""
    order = []
    for t in inputs:
        for ix in t:
            if ix not in order:
                order.append(ix)
    num = {ix: i for i, ix in enumerate(order)}
    app = [0] * len(order)
    legs = []
    for t in inputs:
        d = {}
        for ix in t:
            d[num[ix]] = d.get(num[ix], 0) + 1
            app[num[ix]] += 1
        legs.append(tuple(sorted(d.items())))
    for ix in output:
        app[num[ix]] += 1
    return legs, app, [sizes[ix] for ix in order]


def _merge(a, b, app):
    d = dict(a)
    for ix, c in b:
        d[ix] = d.get(ix, 0) + c
    union = sorted(d.items())
    surv = tuple((ix, c) for ix, c in union if c < app[ix])
    return union, surv


def _best_by_enumeration(legs, app, sz, objective, factor, outer):
    """minimum of the objective over all binary trees (outer-product-free ones only unless ``outer``)"""
    import functools

    n = len(legs)

    def prod(ls):
        p_ = 1
        for ix, _c in ls:
            p_ *= sz[ix]
        return p_

    @functools.lru_cache(None)
    def node(mask):
        """(legs of the subtree over mask) - independent of the tree shape"""
        d = {}
        for i in range(n):
            if mask >> i & 1:
                for ix, c in legs[i]:
                    d[ix] = d.get(ix, 0) + c
        return tuple((ix, c) for ix, c in sorted(d.items()) if c < app[ix])

    def step_cost(l, r_):
        a, b = node(l), node(r_)
        union, surv = _merge(a, b, app)
        return prod(union), prod(surv), bool({ix for ix, _ in a} & {ix for ix, _ in b})

    @functools.lru_cache(None)
    def best(mask):
        if mask & (mask - 1) == 0:
            return 0
        res = None
        sub = (mask - 1) & mask
        while sub:
            other = mask ^ sub
            if sub < other:
                f_, s_, shared = step_cost(sub, other)
                if outer or shared:
                    bl, br = best(sub), best(other)
                    if bl is not None and br is not None:
                        local = {"flops": f_, "write": s_, "size": s_, "max": f_, "combo": f_ + factor * s_, "limit": max(f_, factor * s_)}[objective]
                        tot = max(bl, br, local) if objective in ("size", "max") else bl + br + local
                        res = tot if res is None else min(res, tot)
            sub = (sub - 1) & mask
        return res
    return best((1 << n) - 1)


def _value_of_pairs(pairs, legs, app, sz, objective, factor):
    """objective value of the contraction given as a list of (i, j) node merges (ids as the processor hands them out)"""
    nodes = dict(enumerate(legs))
    nxt = len(legs)
    tot = 0

    def prod(ls):
        p_ = 1
        for ix, _c in ls:
            p_ *= sz[ix]
        return p_
    for i, j in pairs:
        union, surv = _merge(nodes.pop(i), nodes.pop(j), app)
        f_, s_ = prod(union), prod(surv)
        local = {"flops": f_, "write": s_, "size": s_, "max": f_, "combo": f_ + factor * s_, "limit": max(f_, factor * s_)}[objective]
        tot = max(tot, local) if objective in ("size", "max") else tot + local
        nodes[nxt] = surv
        nxt += 1
    return tot, len(nodes)


def rule_optimaleval(ctx):
    """(engine E9) The dynamic programme itself.  `optimize_optimal_connected` — with the six step-cost functions it
    dispatches to — is evaluated by the engine's mini-evaluator on a family of connected networks that have nothing
    to pre-simplify (rings, chains, stars around a hyper index, a complete graph, networks whose optimum contains an
    outer product; three to five tensors, mixed dimensions, with and without output indices), for every objective,
    both `search_outer` values and two initial caps; the merges it performs are replayed with the definitions and
    the value is compared with the minimum over **all** binary trees (all outer-product-free trees when outer
    products are not searched), found by an independent enumeration over subsets."""
    import types

    from ..engine.minieval import Mini, NoEval, Raised

    r = RuleResult("C09-OPTIMALEVAL", "the DP's result is the minimum over all trees on a bounded family of networks", 1)
    cp = ctx.p.cls(C.BASIC, "ContractionProcessor")
    f = cp.methods.get("optimize_optimal_connected")
    m = ctx.p.modules[C.BASIC]
    names = ("compute_con_cost_flops", "compute_con_cost_max", "compute_con_cost_size", "compute_con_cost_write",
             "compute_con_cost_combo", "compute_con_cost_limit")
    fs = {g.name: g.node for g in m.all_funcs if g.cls is None and g.name in names}
    C.require(f is not None and len(fs) == 6, "the optimal finder or its step-cost functions were not found")
    k = ctx.key(f, "C09-OPTIMALEVAL")
    nets = [
        (("ab", "bc", "ca"), "", dict(a=2, b=3, c=5)),
        (("ab", "bc", "cd"), "ad", dict(a=2, b=7, c=3, d=2)),
        (("i", "j", "ijk"), "k", dict(i=2, j=2, k=8)),
        (("ah", "bh", "ch"), "abc", dict(a=2, b=3, c=2, h=4)),
        (("ab", "bc", "cd", "da"), "", dict(a=2, b=5, c=3, d=4)),
        (("ab", "ac", "ad", "bc", "bd", "cd"), "", dict(a=2, b=2, c=3, d=2)),
        (("ab", "bc", "cd", "de"), "ae", dict(a=3, b=2, c=6, d=2, e=3)),
        (("ab", "bc", "cd", "de", "ea"), "", dict(a=2, b=3, c=2, d=4, e=3)),
        (("ax", "bx", "ab", "xc"), "c", dict(a=2, b=3, x=2, c=5)),
        (("a", "b", "abc", "cd"), "d", dict(a=2, b=3, c=7, d=2)),
    ]
    objectives = [("flops", None), ("size", None), ("write", None), ("max", None), ("combo", 64), ("limit", 64), ("combo-2", 2), ("limit-3", 3)]
    bad = None
    n = 0
    try:
        for inputs, output, sizes in nets:
            legs, app, sz = _net_tables(inputs, output, sizes)
            for oname, factor in objectives:
                base = oname.split("-")[0]
                for outer in (False, True):
                    want = _best_by_enumeration(tuple(legs), tuple(app), tuple(sz), base, factor or 0, outer)
                    if want is None:
                        continue  # no outer-product-free tree exists: the finder is not asked for one
                    for cap in (2, 1000):
                        n += 1
                        pairs = []
                        state = {"next": len(legs)}

                        def contract_nodes(i, j, _pairs=pairs, _state=state):
                            _pairs.append((i, j))
                            _state["next"] += 1
                            return _state["next"] - 1
                        me = types.SimpleNamespace(nodes=dict(enumerate(legs)), appearances=list(app), sizes=list(sz), contract_nodes=contract_nodes)
                        fname = {"flops": "compute_con_cost_flops", "max": "compute_con_cost_max", "size": "compute_con_cost_size",
                                 "write": "compute_con_cost_write", "combo": "compute_con_cost_combo", "limit": "compute_con_cost_limit"}[base]
                        ext = {"parse_minimize_for_optimal": lambda mn, _f=fname, _k=factor: ("minifn", _f, ({"factor": _k} if _k is not None else {}))}
                        try:
                            Mini(fs, budget=3_000_000, externals=ext).call(f.node, [me, list(range(len(legs))), oname, cap, outer])
                        except Raised as e:
                            bad = bad or (inputs, output, sizes, oname, outer, f"raises ({e.text})")
                            continue
                        except NoEval:
                            raise
                        except Exception as e:
                            bad = bad or (inputs, output, sizes, oname, outer, f"raises ({type(e).__name__}: {e})")
                            continue
                        got, left = _value_of_pairs(pairs, legs, app, sz, base, factor or 0)
                        if left != 1:
                            bad = bad or (inputs, output, sizes, oname, outer, f"{left} tensors are left")
                        elif got != want:
                            bad = bad or (inputs, output, sizes, oname, outer, f"the merges {pairs} cost {got}, the best tree costs {want}")
        # the public finder end to end (construction, the simplifications - no-ops under the premise -, the DP per
        # component, joining): same networks, plus variants with an index of dimension 1 and with an output index
        # carried by all tensors but one (the premise still holds for them)
        wf = ctx.p.func(C.BASIC, "optimize_optimal")
        allfs = {g.name: g.node for g in m.all_funcs if g.cls is None}
        classes = {"ContractionProcessor": {n_: f_.node for n_, f_ in cp.methods.items()}}
        more = [
            (("bd", "c", "ad", "b", "ace"), "e", dict(a=1, b=2, c=3, d=2, e=2)),
            (("cf", "bf", "ade", "abcdf"), "ade", dict(a=2, b=2, c=3, d=2, e=2, f=1)),
            (("ax", "x", "abx", "b"), "x", dict(a=2, b=3, x=2)),
        ]
        if wf is not None:
            for inputs, output, sizes in nets + more:
                if any(len(set(t)) != len(t) for t in inputs):
                    continue
                legs, app, sz = _net_tables(inputs, output, sizes)
                for oname, factor in objectives:
                    base = oname.split("-")[0]
                    for outer in (False, True):
                        want = _best_by_enumeration(tuple(legs), tuple(app), tuple(sz), base, factor or 0, outer)
                        if want is None:
                            continue
                        n += 1
                        fname = {"flops": "compute_con_cost_flops", "max": "compute_con_cost_max", "size": "compute_con_cost_size",
                                 "write": "compute_con_cost_write", "combo": "compute_con_cost_combo", "limit": "compute_con_cost_limit"}[base]
                        ext = {"parse_minimize_for_optimal": lambda mn, _f=fname, _k=factor: ("minifn", _f, ({"factor": _k} if _k is not None else {}))}
                        try:
                            path = Mini(allfs, budget=3_000_000, externals=ext, classes=classes).call(
                                wf.node, [tuple(tuple(t) for t in inputs), tuple(output), dict(sizes)],
                                {"minimize": oname, "search_outer": outer, "use_ssa": True})
                        except Raised as e:
                            bad = bad or (inputs, output, sizes, oname, outer, f"optimize_optimal raises ({e.text})")
                            continue
                        except NoEval:
                            raise
                        except Exception as e:
                            bad = bad or (inputs, output, sizes, oname, outer, f"optimize_optimal raises ({type(e).__name__}: {e})")
                            continue
                        if any(len(stp) != 2 for stp in path):
                            bad = bad or (inputs, output, sizes, oname, outer, f"optimize_optimal pre-simplifies a network that has nothing to simplify: {list(path)}")
                            continue
                        got, left = _value_of_pairs([tuple(stp) for stp in path], legs, app, sz, base, factor or 0)
                        if left != 1:
                            bad = bad or (inputs, output, sizes, oname, outer, f"optimize_optimal leaves {left} tensors")
                        elif got != want:
                            bad = bad or (inputs, output, sizes, oname, outer, f"optimize_optimal returns {list(path)} costing {got}, the best tree costs {want}")
    except NoEval as e:
        raise AnalysisError(f"optimize_optimal_connected: not evaluable by the mini-evaluator ({e})")
    if bad:
        r.violation(k, f.loc, f"for `{','.join(bad[0])}->{bad[1]}` with dimensions {bad[2]}, minimize={bad[3]!r}, search_outer={bad[4]}: {bad[5]}")
    else:
        r.ok(k, f.loc, f"{n} (network, objective, search_outer, cap) cases: the result is the minimum over all trees")
    return r


RULES = [rule_optimaleval, rule_costeval, rule_options, rule_presimp, rule_costfn, rule_dp, rule_enum, rule_cap, rule_sorted, rule_factor]
