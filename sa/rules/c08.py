"""C08 — the hyper-optimizer returns its best trial and reports true costs."""

from __future__ import annotations

import ast

from ..engine.program import AnalysisError, dotted, walk_local
from ..engine.report import RuleResult
from . import common as C

PID = "C08"
EXPLANATION = (
    "Structural clauses of the hyper-optimizer's arg-min/bookkeeping, decided on the "
    "ast/CFG of hyper.py and scoring.py: (REFRESH) every trial wrapper that mutates "
    "trial['tree'] in place is post-dominated by trial.update(tree.contract_stats()), "
    "or is only constructed for compressed searches whose objectives overwrite the "
    "recorded keys; (KEYS) every concrete objective defines trial['flops'|'write'|"
    "'size'] on every normal path (sibling cross-check); (ASSESS) each reported "
    "trial is yielded immediately, the only update of self.best is guarded by "
    "trial['score'] < self.best['score'] and precedes the stop test, each per-trial "
    "list is appended exactly once per report and nowhere else, the number of trials "
    "is range(r_start, r_start + max_repeats), and a future is reported with the "
    "setting it was submitted with; (FAIL) a failing trial is turned into a complete "
    "inf-valued record. Together: best = arg-min over the recorded scores, "
    "independent of completion order. Cost equality itself is not decided. "
    "Later rounds added: "
    "(SHAREDFN) trial-function wrappers and objectives keep no per-trial state they read "
    "back. "
    'Round 7: (FAILSKIP) no path of _maybe_report_result reaches the report to the sampling library with an infinite score - boolean path analysis over the atoms of its branch conditions; (DRAWN) no item-dropping wrapper between the trial generators and the assessment loop. '
)
ASSUMPTIONS = (
    "single dict/list operations are atomic; trial functions run on workers and "
    "only their returned record is used",
)

COST_KEYS = ("flops", "write", "size")
LISTS = ("scores", "costs_flops", "costs_write", "costs_size", "method_choices",
         "param_choices", "times")


def _wrappers(ctx):
    m = ctx.p.module(C.HYPER)
    out = []
    for c in m.classes.values():
        call = c.methods.get("__call__")
        init = c.methods.get("__init__")
        if call is None or init is None:
            continue
        if "trial_fn" in init.params or "fn" in init.params:
            out.append(c)
    return out


def _inplace_tree_calls(ctx, f):
    """calls ``tree.m_(...)`` in f that resolve to an ``inplace=True`` alias of a
    ContractionTree method (matched by resolution, not by the trailing '_')."""
    tc = ctx.p.cls(C.CORE, "ContractionTree")
    out = []
    for call in walk_local(f.node):
        if not (isinstance(call, ast.Call) and isinstance(call.func, ast.Attribute)):
            continue
        name = call.func.attr
        al = None
        for c in [tc] + tc.all_subclasses():
            a = c.lookup_alias(name)
            if a is not None:
                al = a
                break
        if al is None:
            continue
        v = al.bound_kwargs.get("inplace")
        if isinstance(v, ast.Constant) and v.value is True:
            out.append(call)
    return out


def rule_refresh(ctx):
    r = RuleResult("C08-REFRESH", "stats refreshed after in-place post-processing", 5)
    hyper_cls = ctx.p.cls(C.HYPER, "HyperOptimizer")
    setup = hyper_cls.lookup("setup")
    C.require(setup is not None, "HyperOptimizer.setup not found")
    for c in _wrappers(ctx):
        f = c.methods["__call__"]
        muts = _inplace_tree_calls(ctx, f)
        if not muts:
            continue
        fl = ctx.flow(f)
        # the trial record: the name bound from the wrapped trial function
        tnames = {t.id for n in walk_local(f.node) if isinstance(n, ast.Assign)
                  and isinstance(n.value, ast.Call) and "trial_fn" in ast.unparse(n.value.func)
                  for t in n.targets if isinstance(t, ast.Name)} or {"trial"}
        updates = []
        for n, call in fl.calls():
            if isinstance(call.func, ast.Attribute) and call.func.attr == "update" and \
                    isinstance(call.func.value, ast.Name) and call.func.value.id in tnames \
                    and call.args and "contract_stats" in ast.unparse(call.args[0]):
                updates.append(n.id)
        key = ctx.key(f, "C08-REFRESH")
        bad = None
        for mcall in muts:
            cn = fl.cfg.containing(mcall, f.module.parents)
            if not fl.cfg.all_paths_pass(cn.id, updates):
                bad = mcall
                break
        if bad is None:
            r.ok(key, f.loc, f"{len(muts)} in-place transformation(s), each followed by "
                 "trial.update(tree.contract_stats()) on every normal path")
            continue
        # exemption by computation: only constructed under ``if self.compressed``
        sites = [n for n in walk_local(setup.node) if isinstance(n, ast.Call)
                 and dotted(n.func) == c.name]
        only_compressed = bool(sites) and all(
            any(t and C.unparse(i.test) == "self.compressed"
                for i, t in C.enclosing_ifs(setup, s)) for s in sites)
        if only_compressed:
            r.exempt(key, f.loc, "constructed only for compressed searches; compressed "
                     "objectives overwrite flops/write/size unconditionally (see C08-KEYS)")
        else:
            r.violation(key, C.loc(f, bad), "the tree is transformed in place but the trial's "
                        "recorded flops/write/size are not refreshed from the transformed tree",
                        call=C.unparse(bad))
    return r


def _defines_key_nodes(fl, key):
    """CFG nodes in an objective's __call__ that define trial[key]."""
    out = []
    for n in fl.cfg.nodes:
        if n.kind != "stmt" or n.ast is None:
            continue
        st = n.ast
        if isinstance(st, ast.Assign):
            for t in st.targets:
                if isinstance(t, ast.Subscript) and isinstance(t.value, ast.Name) and \
                        t.value.id == "trial" and isinstance(t.slice, ast.Constant) and \
                        t.slice.value == key:
                    out.append(n.id)
        for call in [x for x in walk_local(st) if isinstance(x, ast.Call)]:
            d = dotted(call.func)
            if d == "ensure_basic_quantities_are_computed":
                out.append(n.id)
            if isinstance(call.func, ast.Attribute) and call.func.attr == "update" and \
                    isinstance(call.func.value, ast.Name) and call.func.value.id == "trial" \
                    and call.args and "contract_stats" in ast.unparse(call.args[0]):
                out.append(n.id)
    return out


def rule_keys(ctx):
    r = RuleResult("C08-KEYS", "every objective defines the recorded cost keys", 10)
    m = ctx.p.module(C.SCORING)
    base = m.classes.get("Objective")
    C.require(base is not None, "scoring.Objective not found")
    # ensure helper really defines all three
    ens = m.funcs.get("ensure_basic_quantities_are_computed")
    C.require(ens is not None, "ensure_basic_quantities_are_computed not found")
    stored = set()
    for n in walk_local(ens.node):
        if isinstance(n, ast.Subscript) and isinstance(n.ctx, ast.Store) and \
                isinstance(n.slice, ast.Constant):
            stored.add(n.slice.value)
    k0 = ctx.key(ens, "C08-KEYS")
    if set(COST_KEYS) <= stored:
        r.ok(k0, ens.loc, "helper stores flops, write and size")
    else:
        r.violation(k0, ens.loc, f"helper does not define {sorted(set(COST_KEYS) - stored)}")
    for c in m.classes.values():
        if not c.is_subclass_of(base) or c is base:
            continue
        f = c.methods.get("__call__")
        if f is None:
            continue
        if any(isinstance(n, ast.Raise) and "NotImplementedError" in ast.unparse(n)
               for n in walk_local(f.node)):
            continue
        fl = ctx.flow(f)
        missing = []
        for k in COST_KEYS:
            nodes = _defines_key_nodes(fl, k)
            if not nodes or not fl.cfg.all_paths_pass(fl.cfg.entry.id, nodes):
                missing.append(k)
        key = ctx.key(f, "C08-KEYS")
        if missing:
            r.violation(key, f.loc, f"trial{missing} is not defined on every path although the "
                        "hyper-optimizer records these keys for every trial")
        else:
            r.ok(key, f.loc, "defines flops, write, size on every normal path")
    return r


def rule_assess(ctx):
    r = RuleResult("C08-ASSESS", "arg-min structure of the search loop", 12)
    hc = ctx.p.cls(C.HYPER, "HyperOptimizer")
    fam = [hc] + hc.all_subclasses()
    # (i) report is immediately followed by yield/return of the same trial
    for c in fam:
        for f in c.methods.values():
            fl = None
            for call in C.method_calls(f, "_maybe_report_result"):
                fl = fl or ctx.flow(f)
                cn = fl.cfg.containing(call, f.module.parents)
                key = ctx.key(f, "C08-ASSESS", "report-then-yield")
                tr = call.args[1] if len(call.args) > 1 else None
                ok = False
                succs = fl.cfg.succ[cn.id]
                if len(succs) == 1:
                    nx = fl.cfg.nodes[succs[0]]
                    st = nx.ast
                    v = None
                    if isinstance(st, ast.Expr) and isinstance(st.value, ast.Yield):
                        v = st.value.value
                    elif isinstance(st, ast.Return):
                        v = st.value
                    if v is not None and tr is not None and C.unparse(v) == C.unparse(tr):
                        ok = True
                if ok:
                    r.ok(key, C.loc(f, call), "reported trial is handed to the assessment loop "
                         "immediately")
                else:
                    r.violation(key, C.loc(f, call), "a reported trial is not (immediately) "
                                "yielded/returned for comparison against the best")
    # (i') (sensitivity map) the converse: every trial handed to the assessment loop was recorded — in the two
    # places where a finished trial comes into being (serial: the result of the trial function; pool:
    # `future.result()`) every path to the hand-out passes `_maybe_report_result`
    for gname in ("_gen_results", "_get_and_report_next_future"):
        g = hc.lookup(gname)
        if g is None:
            continue
        fl = ctx.flow(g)
        key = ctx.key(g, "C08-ASSESS", "recorded-before-handed-out")
        births = []
        for n in walk_local(g.node):
            if isinstance(n, ast.Assign) and isinstance(n.targets[0], ast.Name) and isinstance(n.value, ast.Call):
                fn_ = n.value.func
                if (isinstance(fn_, ast.Attribute) and fn_.attr == "result") or \
                        (isinstance(fn_, ast.Name) and fn_.id in g.params and fn_.id != "self"):
                    births.append(n)
        reps_ = [fl.cfg.containing(c_, g.module.parents).id for c_ in C.method_calls(g, "_maybe_report_result")]
        outs = []
        for n in walk_local(g.node):
            if isinstance(n, ast.Return) and n.value is not None:
                outs.append(n)
            if isinstance(n, ast.Expr) and isinstance(n.value, ast.Yield) and n.value.value is not None:
                outs.append(n)
        if not births or not outs:
            raise AnalysisError(f"{gname}: where a finished trial comes into being / is handed out was not recognised")
        bad = None
        for b_ in births:
            bn = fl.cfg.containing(b_, g.module.parents)
            for o_ in outs:
                on = fl.cfg.containing(o_, g.module.parents)
                if on.id in fl.cfg.reachable_from_succs(bn.id) and not fl.cfg.all_paths_pass(bn.id, reps_, dst=on.id):
                    bad = o_
        if bad is not None:
            r.violation(key, C.loc(g, bad), "a finished trial can be handed to the assessment loop without having been recorded "
                        "(_maybe_report_result): it can become `best` while scores / costs / the sampler never saw it")
        else:
            r.ok(key, g.loc, "every finished trial is recorded before it is handed out")
    # (ii) guarded best update
    srch = hc.lookup("_search")
    C.require(srch is not None, "HyperOptimizer._search not found")
    stores = []
    for c in fam:
        for f in c.methods.values():
            for n in walk_local(f.node):
                if isinstance(n, ast.Assign):
                    for t in n.targets:
                        if isinstance(t, ast.Attribute) and t.attr == "best" and \
                                isinstance(t.value, ast.Name) and t.value.id == "self":
                            stores.append((f, n))
    for f, n in stores:
        key = ctx.key(f, "C08-ASSESS", "best-store")
        if f.name == "__init__":
            r.ok(key, C.loc(f, n), "initialisation")
            continue
        guard = None
        for ifn, in_true in C.enclosing_ifs(f, n):
            t = ifn.test
            if in_true and isinstance(t, ast.Compare) and len(t.ops) == 1 and \
                    isinstance(t.ops[0], (ast.Lt, ast.LtE)):
                l, rr = C.unparse(t.left), C.unparse(t.comparators[0])
                if l.endswith("['score']") and rr == "self.best['score']":
                    # the stored value must be the compared trial
                    if C.unparse(n.value) == l[: -len("['score']")]:
                        guard = ifn
        if guard is None:
            r.violation(key, C.loc(f, n), "self.best is replaced without the guard "
                        "trial['score'] < self.best['score']")
            continue
        # precedes the stop test in the loop body
        loops = C.enclosing_loops(f, n)
        ok_order = False
        if loops:
            body = loops[0].body
            gi = next((i for i, s in enumerate(body) if s is guard), None)
            si = next((i for i, s in enumerate(body) if isinstance(s, ast.If)
                       and "should_stop" in ast.unparse(s.test)), None)
            ok_order = gi is not None and (si is None or gi < si)
        if ok_order:
            r.ok(key, C.loc(f, n), "guarded by trial['score'] < self.best['score'], before the "
                 "stop test")
        else:
            r.violation(key, C.loc(f, n), "best update does not precede the stop test in the "
                        "assessment loop")
    C.require(any(f.name == "_search" for f, _ in stores), "store to self.best in _search not found")
    # (iii) bookkeeping lists appended exactly once per report and nowhere else
    rep = hc.lookup("_maybe_report_result")
    C.require(rep is not None, "_maybe_report_result not found")
    flr = ctx.flow(rep)
    for name in LISTS:
        key = ctx.key(rep, "C08-ASSESS", f"append:{name}")
        sites = []
        for c in fam:
            for f in c.methods.values():
                for call in C.method_calls(f, "append") + C.method_calls(f, "extend") + \
                        C.method_calls(f, "insert"):
                    if dotted(call.func.value) == f"self.{name}":
                        sites.append((f, call))
        inside = [(f, c2) for f, c2 in sites if f is rep]
        outside = [(f, c2) for f, c2 in sites if f is not rep]
        if outside:
            f, c2 = outside[0]
            r.violation(key, C.loc(f, c2), f"self.{name} is appended outside the per-trial report")
        elif len(inside) != 1:
            r.violation(key, rep.loc, f"self.{name} is appended {len(inside)} times per report "
                        "(expected exactly once)")
        else:
            cn = flr.cfg.containing(inside[0][1], rep.module.parents)
            if flr.cfg.all_paths_pass(flr.cfg.entry.id, [cn.id]):
                r.ok(key, C.loc(rep, inside[0][1]), "appended exactly once on every path")
            else:
                r.violation(key, C.loc(rep, inside[0][1]),
                            f"self.{name} is not appended on every path through the report")
    # (iv) trial bound
    key = ctx.key(srch, "C08-ASSESS", "repeats")
    la = ctx.r.local_assignments(srch)
    # the repeat counter: first argument handed to the trial generators
    rname = "repeats"
    for call in walk_local(srch.node):
        if isinstance(call, ast.Call) and isinstance(call.func, ast.Attribute) and \
                call.func.attr.startswith("_gen_results") and call.args and \
                isinstance(call.args[0], ast.Name):
            rname = call.args[0].id
    rp = la.get(rname, [])
    ok = False
    if len(rp) == 1 and isinstance(rp[0], ast.Call) and dotted(rp[0].func) == "range":
        args = rp[0].args
        if len(args) == 1:
            ok = C.unparse(args[0]) == "self.max_repeats"
        elif len(args) == 2 and isinstance(args[1], ast.Name):
            stop = la.get(args[1].id, [])
            if len(stop) == 1 and isinstance(stop[0], ast.BinOp) and isinstance(stop[0].op, ast.Add):
                parts = {C.unparse(stop[0].left), C.unparse(stop[0].right)}
                ok = parts == {C.unparse(args[0]), "self.max_repeats"}
    if ok:
        r.ok(key, srch.loc, "number of trials = len(range(r_start, r_start + max_repeats))")
    else:
        r.violation(key, srch.loc, "the trial counter is not range(r_start, r_start + "
                    "self.max_repeats): more (or fewer) trials than requested can run")
    for gname in ("_gen_results", "_gen_results_parallel"):
        g = hc.lookup(gname)
        C.require(g is not None, f"{gname} not found")
        key = ctx.key(g, "C08-ASSESS", "one-trial-per-repeat")
        p0 = [x for x in g.positional if x != "self"][0]
        loops = [n for n in walk_local(g.node) if isinstance(n, ast.For)
                 and C.unparse(n.iter) == p0]
        if len(loops) != 1:
            r.violation(key, g.loc, "trials are not generated by exactly one loop over `repeats`")
            continue
        body = loops[0].body
        p1 = [x for x in g.positional if x != "self"][1]
        launches = [x for b in body for x in ast.walk(b) if isinstance(x, ast.Call) and
                    (dotted(x.func) in (p1, "submit"))]
        nested_loops = [x for b in body for x in ast.walk(b) if isinstance(x, (ast.For, ast.While))]
        if len(launches) == 1 and not nested_loops:
            r.ok(key, C.loc(g, loops[0]), "one trial launched per repeat")
        else:
            r.violation(key, C.loc(g, loops[0]), f"{len(launches)} trials launched per repeat")
    # (v) future/setting pairing
    nf = hc.lookup("_get_and_report_next_future")
    C.require(nf is not None, "_get_and_report_next_future not found")
    key = ctx.key(nf, "C08-ASSESS", "setting-future-pair")
    pair_ok = False
    for n in walk_local(nf.node):
        if isinstance(n, ast.Assign) and isinstance(n.targets[0], ast.Tuple) and \
                len(n.targets[0].elts) == 2 and isinstance(n.value, ast.Subscript) and \
                dotted(n.value.value) == "self._futures":
            names = [e.id for e in n.targets[0].elts if isinstance(e, ast.Name)]
            if len(names) == 2:
                s_name, f_name = names
                txt = ast.unparse(nf.node)
                rep_calls = C.method_calls(nf, "_maybe_report_result")
                if rep_calls and C.unparse(rep_calls[0].args[0]) == s_name and \
                        f"{f_name}.result()" in txt:
                    pair_ok = True
    dels = [n for n in walk_local(nf.node) if isinstance(n, ast.Delete)
            and "self._futures" in ast.unparse(n)]
    pops = [c2 for c2 in C.method_calls(nf, "pop") if dotted(c2.func.value) == "self._futures"]
    if pair_ok and (dels or pops):
        r.ok(key, nf.loc, "setting and future come from one tuple; the entry is removed before "
             "it is reported (each future reported once)")
    else:
        r.violation(key, nf.loc, "a completed future may be reported with another trial's "
                    "setting, or more than once")
    # (seed C08_12) the list of trials in flight belongs to one search: it is re-created at the start of every
    # parallel generation — a search that ended by an exception leaves uncollected futures behind, and the next
    # search on the same optimizer would collect and record them on top of its own max_repeats submissions
    gp = hc.lookup("_gen_results_parallel")
    key = ctx.key(gp, "C08-ASSESS", "fresh-futures")
    fl = ctx.flow(gp)
    resets = [fl.cfg.containing(n, gp.module.parents).id for n in walk_local(gp.node) if isinstance(n, ast.Assign)
              and any(C.unparse(t) == "self._futures" for t in n.targets)
              and ((isinstance(n.value, ast.List) and not n.value.elts) or C.unparse(n.value) in ("list()", "collections.deque()", "deque()"))]
    apps = [fl.cfg.containing(n, gp.module.parents).id for n in walk_local(gp.node) if isinstance(n, ast.Call)
            and isinstance(n.func, ast.Attribute) and n.func.attr in ("append", "add", "appendleft")
            and C.unparse(n.func.value) == "self._futures"]
    if not apps:
        r.exempt(key, gp.loc, "trials in flight are not kept in self._futures: not decided")
    elif resets and all(fl.cfg.all_paths_pass(fl.cfg.entry.id, resets, dst=a) for a in apps):
        r.ok(key, gp.loc, "self._futures is re-created before the first trial of every parallel search is submitted")
    else:
        r.violation(key, gp.loc, "self._futures is not re-created at the start of a parallel search: trials still in flight "
                    "from an earlier search that ended by an exception (on_trial_error='raise', KeyboardInterrupt) are "
                    "collected and recorded by the next search — more trials than max_repeats, and results of the "
                    "earlier search mixed into this one")
    return r


def rule_fail(ctx):
    r = RuleResult("C08-FAIL", "failing trials become complete inf-valued records", 2)
    f = ctx.p.func(C.HYPER, "ComputeScore.__call__")
    call = None
    for n in walk_local(f.node):
        if isinstance(n, ast.Call) and dotted(n.func) == "self.fn":
            call = n
    C.require(call is not None, "call of the wrapped trial function not found")
    tr = None
    cur = f.module.parents.get(call)
    while cur is not None and cur is not f.node:
        if isinstance(cur, ast.Try):
            tr = cur
            break
        cur = f.module.parents.get(cur)
    key = ctx.key(f, "C08-FAIL", "try")
    if tr is None:
        r.violation(key, C.loc(f, call), "the trial function is called outside any try block: "
                    "one failing trial aborts the whole search")
        return r
    # the record name: what the wrapped call's result is bound to
    tname = "trial"
    for n in ast.walk(tr):
        if isinstance(n, ast.Assign) and n.value is call and isinstance(n.targets[0], ast.Name):
            tname = n.targets[0].id
    types = {}
    for h in tr.handlers:
        for t in ([h.type] if not isinstance(h.type, ast.Tuple) else h.type.elts):
            types[(dotted(t) or "*").split(".")[-1]] = h
    if "BadTrial" in types and ("Exception" in types or "*" in types):
        r.ok(key, C.loc(f, tr), "handlers for BadTrial and Exception")
    else:
        r.violation(key, C.loc(f, tr), f"handlers cover only {sorted(types)}")
    for name, h in types.items():
        k = ctx.key(f, "C08-FAIL", f"handler:{name}")
        rec = None
        for n in ast.walk(h):
            if isinstance(n, ast.Assign) and isinstance(n.targets[0], ast.Name) and \
                    n.targets[0].id == tname and isinstance(n.value, ast.Dict):
                rec = n.value
        if rec is None:
            r.violation(k, C.loc(f, h), "handler does not bind a replacement trial record")
            continue
        keys = {kk.value for kk in rec.keys if isinstance(kk, ast.Constant)}
        need = {"score", "flops", "write", "size"}
        infs = all("inf" in ast.unparse(v) for v in rec.values)
        raises = [n for n in ast.walk(h) if isinstance(n, ast.Raise)]
        bad_raise = [x for x in raises if not any(
            "on_trial_error" in C.unparse(i.test) and "raise" in C.unparse(i.test)
            for i, t in C.enclosing_ifs(f, x) if t)]
        if need <= keys and infs and not bad_raise:
            r.ok(k, C.loc(f, h), "complete inf-valued record; raise only on request")
        else:
            r.violation(k, C.loc(f, h), "failure record is incomplete / not inf-valued, or the "
                        "handler raises unconditionally",
                        missing=sorted(need - keys))
    return r


def rule_presurv(ctx):
    """Shared with C18-SURV (move evaluator): the annealing stage caches the evaluator's
    legs, cost and size in the tree and the trial records ``tree.contract_stats()`` from
    them - the recorded costs are those of the returned tree only if the evaluator
    uses the tree's survival rule."""
    from .c18 import rule_surv

    return C.reuse_rule(ctx, rule_surv, "C18-SURV", "C08-PRESURV",
                        "figures cached by the annealing stage follow the tree's survival rule",
                        lambda i: C.ANNEAL in i.construct, 3)


def rule_sharedfn(ctx):
    """(seed C08_9) One trial-function object (the stack of wrappers around the method's trial function, and
    the objective) serves all trials of a search; on a thread pool several trials run through it at once.
    A wrapper that parks per-trial data on itself (`self.tree = trial["tree"]`) lets one trial read the
    other's tree, and the recorded figures describe a tree that is not the trial's.  Clause: `__call__` of
    every wrapper / objective writes no attribute of `self` that it also reads (its own random generator excepted)."""
    r = RuleResult("C08-SHAREDFN", "trial-function wrappers and objectives keep no per-trial state", 12)
    classes = []
    for path in ((C.HYPER, C.SCORING) if ctx.tier != "thorough" else sorted(ctx.p.modules)):
        m = ctx.p.modules.get(path)
        if m is None:
            continue
        for c in m.classes.values():
            call = c.methods.get("__call__")
            if call is None:
                continue
            init = c.lookup("__init__")
            wraps = False
            if init is not None:
                for n in walk_local(init.node):
                    if isinstance(n, ast.Assign) and isinstance(n.targets[0], ast.Attribute) and \
                            n.targets[0].attr in ("trial_fn", "fn") and dotted(n.targets[0].value) == "self":
                        wraps = True
            is_objective = any(b.name == "Objective" for b in c.mro()[1:]) if hasattr(c, "mro") else False
            if wraps or is_objective:
                classes.append((c, call, "wrapper" if wraps else "objective"))
    for c, call, kind in classes:
        key = ctx.key(call, "C08-SHAREDFN")
        t = ctx.effects.transitive(call)
        # only state that flows back into a trial matters: a write-only statistic is not per-trial data
        wrote = sorted(((t["write"] | t["mutate"]) & t["read"]) - {"rng", "_rng"})
        if wrote:
            site = [a for a in ctx.effects.direct(call)["access"] if a.recv == "self" and a.attr in wrote
                    and a.kind in ("write", "mutate")]
            r.violation(key, site[0].loc if site else call.loc,
                        f"{c.name}.__call__ stores per-trial data on the shared {kind} object (self.{wrote[0]}): "
                        f"trials that overlap on a thread pool read each other's value, so the figures recorded "
                        f"for a trial can describe another trial's tree")
        else:
            r.ok(key, call.loc, f"{kind}: __call__ writes no attribute of self")
    return r


# ------------------------------------------------------------------ FAILSKIP / DRAWN

def _subst(e, env):
    """copy of expression ``e`` with names bound in ``env`` replaced by their (already substituted) definitions"""
    class T(ast.NodeTransformer):
        def visit_Name(self, n):
            if isinstance(n.ctx, ast.Load) and n.id in env:
                return env[n.id]
            return n
    import copy
    return T().visit(copy.deepcopy(e))


def _bool_atoms(e, out):
    if isinstance(e, ast.BoolOp):
        for v in e.values:
            _bool_atoms(v, out)
    elif isinstance(e, ast.UnaryOp) and isinstance(e.op, ast.Not):
        _bool_atoms(e.operand, out)
    elif isinstance(e, ast.Constant) and isinstance(e.value, bool):
        pass
    else:
        out.setdefault(C.unparse(e, 400), e)


def _bool_eval(e, val):
    if isinstance(e, ast.BoolOp):
        vs = [_bool_eval(v, val) for v in e.values]
        return all(vs) if isinstance(e.op, ast.And) else any(vs)
    if isinstance(e, ast.UnaryOp) and isinstance(e.op, ast.Not):
        return not _bool_eval(e.operand, val)
    if isinstance(e, ast.Constant) and isinstance(e.value, bool):
        return e.value
    return val[C.unparse(e, 400)]


def _is_inf(e):
    u = C.unparse(e).replace("'", '"')
    return u in ('float("inf")', "math.inf", "inf", "np.inf", "numpy.inf")


def _finite_atom(e, score_names):
    """truth value of atom ``e`` when the trial's score is +inf, or None when the atom says nothing about it"""
    if isinstance(e, ast.Compare) and len(e.ops) == 1:
        l, op, r_ = e.left, e.ops[0], e.comparators[0]
        if C.unparse(l) in score_names and _is_inf(r_):
            return {ast.Lt: False, ast.NotEq: False, ast.Eq: True, ast.GtE: True, ast.LtE: True, ast.Gt: False}.get(type(op))
        if C.unparse(r_) in score_names and _is_inf(l):
            return {ast.Gt: False, ast.NotEq: False, ast.Eq: True, ast.LtE: True, ast.GtE: True, ast.Lt: False}.get(type(op))
    if isinstance(e, ast.Call) and dotted(e.func) in ("math.isfinite", "isfinite", "np.isfinite") and e.args and C.unparse(e.args[0]) in score_names:
        return False
    if isinstance(e, ast.Call) and dotted(e.func) in ("math.isinf", "isinf", "np.isinf") and e.args and C.unparse(e.args[0]) in score_names:
        return True
    return None


def rule_failskip(ctx):
    """(seed C08_13) 'Trials that fail are skipped without affecting the others': a failed trial carries the score
    +inf, and the sampling libraries are fed through `report_result` — an infinite target makes the next regressor
    fit raise (skopt) on a *healthy* trial and aborts the search.  The statements of `_maybe_report_result` are
    walked path by path with boolean locals substituted by their definitions; for every path that reaches the
    report the conjunction of its branch conditions is evaluated under all truth assignments of its atoms with
    the atoms about the score fixed to 'score is +inf': it must be unsatisfiable."""
    r = RuleResult("C08-FAILSKIP", "a failed (infinite-score) trial is never reported to the sampling library", 1)
    hc = ctx.p.cls(C.HYPER, "HyperOptimizer")
    f = hc.lookup("_maybe_report_result")
    C.require(f is not None, "_maybe_report_result not found")
    params = [a.arg for a in f.node.args.args]
    C.require(len(params) >= 3, "_maybe_report_result(self, setting, trial) expected")
    trial = params[2]
    score_names = {f'{trial}["score"]', f"{trial}['score']"}
    reached = []

    def is_report(st):
        return any(isinstance(c, ast.Call) and "report_result" in C.unparse(c.func) for c in ast.walk(st))

    def walk(stmts, env, conds):
        for i, st in enumerate(stmts):
            if isinstance(st, ast.Assign) and len(st.targets) == 1 and isinstance(st.targets[0], ast.Name):
                v = _subst(st.value, env)
                if C.unparse(v, 400).replace("'", '"') in {x.replace("'", '"') for x in score_names}:
                    score_names.add(st.targets[0].id)
                env = dict(env)
                env[st.targets[0].id] = v
            elif isinstance(st, ast.If):
                t = _subst(st.test, env)
                walk(list(st.body) + list(stmts[i + 1:]), env, conds + [(t, True)])
                walk(list(st.orelse) + list(stmts[i + 1:]), env, conds + [(t, False)])
                return
            elif isinstance(st, (ast.Return, ast.Raise)):
                return
            elif isinstance(st, (ast.For, ast.While, ast.Try, ast.With)):
                raise AnalysisError("_maybe_report_result: statement kind not handled by the path walk")
            elif is_report(st):
                reached.append((st, list(conds)))

    walk(list(f.node.body), {}, [])
    C.require(reached, "_maybe_report_result: call of report_result not found")
    k = ctx.key(f, "C08-FAILSKIP")
    bad = None
    for st, conds in reached:
        atoms = {}
        for t, _ in conds:
            _bool_atoms(t, atoms)
        fixed = {a: _finite_atom(e, score_names) for a, e in atoms.items()}
        free = [a for a, v in fixed.items() if v is None]
        if len(free) > 12:
            raise AnalysisError("_maybe_report_result: too many atoms")
        import itertools
        for vals in itertools.product((False, True), repeat=len(free)):
            val = {a: v for a, v in fixed.items() if v is not None}
            val.update(dict(zip(free, vals)))
            if all(_bool_eval(t, val) == want for t, want in conds):
                bad = (st, {a: val[a] for a in free})
                break
        if bad:
            break
    if bad:
        r.violation(k, C.loc(f, bad[0]), "the report to the sampling library is reachable with an infinite score (a failed trial), e.g. when "
                    + ", ".join(f"`{a[:50]}` is {v}" for a, v in bad[1].items()) + ": an optimizer library that rejects inf raises on the next "
                    "healthy trial and the whole search aborts")
    else:
        r.ok(k, C.loc(f, reached[0][0]), f"{len(reached)} path(s) to the report: each requires a finite score")
    return r


_DROPPING = {"takewhile", "dropwhile", "filter", "filterfalse", "compress"}


def rule_drawn(ctx):
    """(seed C08_14) The generators record a trial (scores, costs, the sampling library) as they produce it; the best
    is the arg-min of what was recorded only if every trial *drawn* from them reaches the comparison in `_search`.
    The iterable of the assessment loop is traced through its definitions: it is the generator itself or a
    pass-through wrapper (a progress bar, enumerate); a wrapper that may pull an item and drop it (takewhile,
    filter, dropwhile, compress) loses a recorded trial."""
    r = RuleResult("C08-DRAWN", "every trial drawn from the generators is compared with the best", 1)
    hc = ctx.p.cls(C.HYPER, "HyperOptimizer")
    f = hc.lookup("_search")
    C.require(f is not None, "_search not found")
    fl = ctx.flow(f)
    loops = [n for n in walk_local(f.node) if isinstance(n, ast.For) and any(
        isinstance(c, ast.Compare) and "best" in C.unparse(c) and "score" in C.unparse(c) for c in ast.walk(n))]
    C.require(len(loops) == 1, "_search: assessment loop not found")
    lp = loops[0]
    head = fl.cfg.node_of(lp)
    k = ctx.key(f, "C08-DRAWN")
    bad = None
    seen = set()
    work = [(lp.iter, head.id)]
    n_defs = 0
    while work:
        e, at = work.pop()
        for c in ast.walk(e):
            if isinstance(c, ast.Call) and (dotted(c.func) or "").split(".")[-1] in _DROPPING:
                bad = c
        for nm in [x for x in ast.walk(e) if isinstance(x, ast.Name)]:
            for d in fl.defs_reaching(nm.id, at):
                if d.kind != "assign" or d.value is None or id(d) in seen:
                    continue
                seen.add(id(d))
                n_defs += 1
                work.append((d.value, d.node))
    if bad is not None:
        r.violation(k, C.loc(f, bad), f"`{C.unparse(bad, 70)}` stands between the generators and the assessment loop: it pulls a trial — which the "
                    "generator has already recorded — before deciding to drop it, so the best can differ from the arg-min of the "
                    "recorded scores")
    else:
        r.ok(k, C.loc(f, lp), f"the loop iterates the generators through pass-through wrappers only ({n_defs} definitions traced)")
    return r


RULES = [rule_failskip, rule_drawn, rule_refresh, rule_keys, rule_assess, rule_fail, rule_presurv, rule_sharedfn]
