"""C11 demo: two-operand einsum / tensordot of cotengra.contract vs numpy.

Sweeps all two-operand equations in which one operand has rank <= 1 and the
other has rank <= 3 (over symbols 'abc', repeated symbols allowed), with every
admissible output order, for two shape assignments.
"""
import itertools
import sys

import numpy as np

from cotengra.contract import einsum, tensordot

rng = np.random.default_rng(0)
failures = []
ncheck = 0


def check(label, fn, ref):
    global ncheck
    ncheck += 1
    try:
        got = np.asarray(fn())
    except Exception as e:  # noqa
        failures.append((label, f"raised {type(e).__name__}: {e}"))
        return
    if got.shape != ref.shape:
        failures.append((label, f"shape {got.shape}, expected {ref.shape}"))
    elif not np.allclose(got, ref):
        failures.append((label, "same shape but wrong values (silent)"))


small_terms = ["", "a", "b"]
big_terms = [
    "".join(t) for r in range(0, 4) for t in itertools.product("abc", repeat=r)
]
for sizes in ({"a": 3, "b": 3, "c": 3}, {"a": 2, "b": 3, "c": 1}):
    for s, t in itertools.product(small_terms, big_terms):
        for ta, tb in ((s, t), (t, s)):
            syms = sorted(set(ta + tb))
            for k in range(len(syms) + 1):
                for out in itertools.permutations(syms, k):
                    out = "".join(out)
                    eq = f"{ta},{tb}->{out}"
                    a = rng.normal(size=tuple(sizes[i] for i in ta))
                    b = rng.normal(size=tuple(sizes[i] for i in tb))
                    check(
                        f"einsum({eq!r}) shapes {a.shape},{b.shape}",
                        lambda: einsum(eq, a, b),
                        np.einsum(eq, a, b),
                    )

# tensordot with a scalar / outer products
for shp_a, shp_b, axes in [
    ((), (2, 3), 0),
    ((2, 3), (), 0),
    ((2,), (3,), 0),
    ((2, 3), (3, 2), 1),
    ((2, 3), (3, 2), ((0, 1), (1, 0))),
]:
    a = rng.normal(size=shp_a)
    b = rng.normal(size=shp_b)
    check(
        f"tensordot shapes {shp_a},{shp_b} axes={axes}",
        lambda: tensordot(a, b, axes),
        np.tensordot(a, b, axes),
    )

print(f"checked {ncheck} cases, {len(failures)} disagree")
silent = [f for f in failures if "silent" in f[1]]
for label, msg in failures[:6] + silent[:4]:
    print(f"  {label}: {msg}")
if failures:
    print("FAIL: cotengra.contract.einsum disagrees with numpy.einsum")
    sys.exit(1)
print("OK")
