"""C03 demo 13: costs reported by trees that were derived from one another
with the non-inplace API (``tree.remove_ind``, ``tree.subtree_reconfigure``)
must each match an independent recomputation from the network alone."""

import sys
from math import prod

import cotengra as ctg


def reference_costs(tree, order=None):
    """Recompute flops / write / max size / peak only from the network
    (inputs, output, sizes, sliced indices) and the tree structure."""
    sliced = set(tree.sliced_inds)
    terms = [[ix for ix in t if ix not in sliced] for t in tree.inputs]
    out = [ix for ix in tree.output if ix not in sliced]
    total = {}
    for t in terms + [out]:
        for ix in t:
            total[ix] = total.get(ix, 0) + 1

    def count(node):
        c = {}
        for i in node:
            for ix in terms[i]:
                c[ix] = c.get(ix, 0) + 1
        return c

    def legs(node):
        if len(node) == tree.N:
            return set(out)
        return {ix for ix, c in count(node).items() if c < total[ix]}

    def size(node):
        return prod(tree.size_dict[ix] for ix in legs(node))

    nslices = prod(
        si.size for si in tree.sliced_inds.values() if si.project is None
    )
    flops = write = 0
    biggest = 0
    live = sum(size(leaf) for leaf in tree.gen_leaves())
    peak = live
    for p, l, r in tree.traverse(order):
        involved = legs(l) | legs(r)
        flops += prod(tree.size_dict[ix] for ix in involved)
        sp = size(p)
        write += sp
        biggest = max(biggest, sp)
        live += sp
        peak = max(peak, live)
        live -= size(l) + size(r)
    return {
        "flops": nslices * flops,
        "write": nslices * write,
        "size": biggest,
        "peak": peak,
    }


def reported_costs(tree):
    return {
        "flops": tree.total_flops(),
        "write": tree.total_write(),
        "size": tree.max_size(),
        "peak": tree.peak_size(),
    }


def check(name, tree, problems):
    rep, ref = reported_costs(tree), reference_costs(tree)
    if rep != ref:
        problems.append(f"{name}: reported {rep} != recomputed {ref}")


def main():
    problems = []
    for seed in range(6):
        tree = ctg.utils.rand_tree(
            12, 3, n_out=2, n_hyper_in=1, n_hyper_out=1,
            d_min=2, d_max=4, seed=seed,
        )
        check(f"seed {seed} original", tree, problems)

        # non-inplace: the returned trees are independent objects
        biggest = max(tree.children, key=tree.get_size)
        ix = sorted(tree.get_legs(biggest))[0]
        sliced = tree.remove_ind(ix)
        check(f"seed {seed} sliced({ix})", sliced, problems)
        check(f"seed {seed} original after remove_ind", tree, problems)

        reconf = tree.subtree_reconfigure(subtree_size=6, minimize="size")
        check(f"seed {seed} reconfigured", reconf, problems)
        check(f"seed {seed} original after reconfigure", tree, problems)
        check(f"seed {seed} sliced after reconfigure", sliced, problems)

        # now change the original itself and ask every tree again
        ix2 = sorted(set(tree.get_legs(biggest)) - {ix})[0]
        tree.remove_ind_(ix2)
        check(f"seed {seed} original sliced inplace({ix2})", tree, problems)
        check(f"seed {seed} sliced, at the end", sliced, problems)
        check(f"seed {seed} reconfigured, at the end", reconf, problems)

    if problems:
        print("FAIL: reported costs differ from the definition:")
        for p in problems[:8]:
            print("  ", p)
        print(f"  ({len(problems)} mismatches in total)")
        return 1
    print("OK: all reported costs match the independent recomputation")
    return 0


if __name__ == "__main__":
    sys.exit(main())
