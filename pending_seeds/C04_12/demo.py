"""C04 demo: networks in which a tensor carries a repeated (diagonal) index
that is shared with other tensors.  After subtree reconfiguration (also when
interleaved with slicing) every cost figure and per-node index set must equal
those of a tree rebuilt from (get_path(), sliced_inds).
"""
import sys

import cotengra as ctg


def rebuild(tree):
    new = ctg.ContractionTree.from_path(
        tree.inputs, tree.output, tree.size_dict, path=tree.get_path()
    )
    for ix, si in tree.sliced_inds.items():
        new.remove_ind_(ix, project=si.project)
    return new


def compare(tree, label):
    ref = rebuild(tree)
    got, exp = tree.contract_stats(), ref.contract_stats()
    if got != exp:
        return f"{label}: contract_stats {got} != rebuilt {exp}"
    for name in ("combo_cost", "peak_size", "contraction_scaling"):
        a, b = getattr(tree, name)(), getattr(ref, name)()
        if a != b:
            return f"{label}: {name} {a} != rebuilt {b}"
    if set(tree.children) != set(ref.children):
        return f"{label}: rebuilt tree has different nodes"
    for node in ref.children:
        for fn in ("get_flops", "get_size"):
            a, b = getattr(tree, fn)(node), getattr(ref, fn)(node)
            if a != b:
                return f"{label}: {fn}({sorted(node)}) {a} != rebuilt {b}"
        for fn in ("get_legs", "get_involved"):
            a, b = set(getattr(tree, fn)(node)), set(getattr(ref, fn)(node))
            if a != b:
                return (
                    f"{label}: {fn}({sorted(node)}) {sorted(a)} != "
                    f"rebuilt {sorted(b)}"
                )
    return None


NETWORKS = [
    # (inputs, output, initial path direction, reconfigure options)
    # 'a' sits twice on the first tensor and once on the second
    (
        ["aab", "acd", "ce", "def", "fg", "gbh", "hi", "ij", "j"],
        "",
        "backward",
        dict(subtree_size=4, select="max"),
    ),
    # ... same with open indices
    (
        ["xaab", "acd", "ce", "def", "fg", "gbh", "hi", "ij", "jy"],
        "xy",
        "forward",
        dict(subtree_size=3, select="min"),
    ),
    # repeated index deeper inside a ring, which is also a hyper index
    (
        ["pq", "qrc", "rssc", "stc", "tu", "uv", "vw", "wp"],
        "",
        "forward",
        dict(subtree_size=3, select="max"),
    ),
]


def main():
    problems = []
    for k, (inputs, output, direction, opts) in enumerate(NETWORKS):
        size_dict = {
            ix: 2 + (i % 3)
            for i, ix in enumerate(sorted(set("".join(inputs))))
        }
        n = len(inputs)
        # a deliberately naive sequential path
        if direction == "forward":
            path = [(0, 1)] * (n - 1)
        else:
            path = [(n - 2 - j, n - 1 - j) for j in range(n - 1)]

        def fresh():
            return ctg.ContractionTree.from_path(
                inputs, output, size_dict, path=path
            )

        def step(tree, label, fn):
            try:
                fn(tree)
            except Exception as e:
                problems.append(f"net{k} {label}: raised {e!r}")
                return False
            msg = compare(tree, f"net{k} {label}")
            if msg:
                problems.append(msg)
            return True

        tree = fresh()
        step(tree, "initial", lambda t: t.contract_stats())
        step(
            tree,
            f"reconfigure({opts})",
            lambda t: t.subtree_reconfigure_(maxiter=50, **opts),
        )

        # slice -> reconfigure -> unslice
        tree = fresh()
        ix = sorted(size_dict)[-1]
        ok = step(tree, f"slice {ix!r}", lambda t: t.remove_ind_(ix))
        ok = ok and step(
            tree,
            f"slice {ix!r} -> reconfigure",
            lambda t: t.subtree_reconfigure_(maxiter=50, **opts),
        )
        ok and step(
            tree,
            f"slice {ix!r} -> reconfigure -> unslice",
            lambda t: t.restore_ind_(ix),
        )

    if problems:
        print("FAIL: incrementally tracked figures differ from a rebuild")
        for msg in problems:
            print("  " + msg)
        return 1
    print("OK: all figures match a from-scratch rebuild")
    return 0


if __name__ == "__main__":
    sys.exit(main())
