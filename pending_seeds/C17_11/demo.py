"""C17 demo: seeded slicing of a uniform lattice must not depend on the
interpreter's string-hash randomisation.

A 4x4 lattice with all bonds of the same size has many exactly tied
slicings (same total flops / number of slices / size, different index
sets).  ``tree.slice(target_slices=..., seed=...)`` is run in fresh
interpreters with different PYTHONHASHSEED values (and a perturbed global
RNG); every interpreter has to report the same sliced indices.
"""

import json
import os
import subprocess
import sys

CHILD = r"""
import json, random, sys
import cotengra as ctg

random.seed(int(sys.argv[1]))  # perturb the global generator
out = []
for dims, nsl in [((4, 4), 4), ((4, 4), 8), ((3, 5), 4), ((3, 3, 2), 8)]:
    con = ctg.utils.lattice_equation(dims, d_min=2, seed=0)
    tree = ctg.array_contract_tree(
        con.inputs, con.output, con.size_dict, optimize="greedy"
    )
    for seed in (0, 1, 2, 3):
        random.random()
        st = tree.slice(target_slices=nsl, seed=seed)
        out.append(
            [list(dims), nsl, seed, list(st.sliced_inds),
             str(st.contraction_cost()), str(st.max_size())]
        )
print(json.dumps(out))
"""


def run(hashseed):
    env = dict(os.environ)
    env["PYTHONHASHSEED"] = str(hashseed)
    res = subprocess.run(
        [sys.executable, "-c", CHILD, str(1000 + hashseed)],
        env=env,
        capture_output=True,
        text=True,
        timeout=100,
    )
    if res.returncode != 0:
        print(res.stderr)
        sys.exit(2)
    return json.loads(res.stdout.strip().splitlines()[-1])


def main():
    hashseeds = [0, 1, 2, 3, 4, 5]
    results = [run(h) for h in hashseeds]
    ref = results[0]
    bad = 0
    for h, r in zip(hashseeds[1:], results[1:]):
        for a, b in zip(ref, r):
            if a != b:
                bad += 1
                if bad <= 5:
                    print(
                        f"MISMATCH lattice={a[0]} target_slices={a[1]} "
                        f"seed={a[2]}: PYTHONHASHSEED=0 sliced {a[3]} but "
                        f"PYTHONHASHSEED={h} sliced {b[3]}"
                    )
    if bad:
        print(
            f"FAIL: tree.slice(seed=...) gave {bad} differing results across "
            "interpreters with the same arguments and seed"
        )
        sys.exit(1)
    print(f"OK: {len(ref)} seeded slicings identical under {len(hashseeds)} hash seeds")


if __name__ == "__main__":
    main()
