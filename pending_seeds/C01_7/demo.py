"""C01 demo: a complete (unsliced) contraction tree must contract to np.einsum,
whatever has been done to *other* trees derived from it.

Sequence: build a tree for a network whose inputs need single-term
preprocessing (repeated index / index seen on one tensor only), look at its
cost (ordinary inspection, caches the leaf legs), ask "what if I sliced index
X?" with the non-inplace ``tree.remove_ind(X)`` / ``tree.slice(...)``, throw the
sliced copy away (or keep it) and contract the ORIGINAL tree.
"""

import sys

import numpy as np

import cotengra as ctg


def build(eq, size_dict, path):
    lhs, out = eq.split("->")
    inputs = [tuple(t) for t in lhs.split(",")]
    tree = ctg.ContractionTree.from_path(
        inputs, tuple(out), size_dict, path=path
    )
    rng = np.random.default_rng(7)
    arrays = [
        rng.normal(size=[size_dict[ix] for ix in term]) for term in inputs
    ]
    return tree, arrays, np.einsum(eq, *arrays)


def compare(label, tree, arrays, expected, bad, **opts):
    try:
        got = tree.contract(arrays, **opts)
    except Exception as e:  # noqa
        bad.append(f"  {label} {opts}: raised {type(e).__name__}: {e}")
        return
    if np.shape(got) != expected.shape or not np.allclose(got, expected):
        bad.append(
            f"  {label} {opts}: got shape {np.shape(got)} value "
            f"{np.asarray(got).ravel()[:3]} expected shape {expected.shape} "
            f"value {expected.ravel()[:3]}"
        )


def main():
    bad = []

    cases = [
        # (eq, sizes, path, index sliced on the copy)
        # 'a' is repeated on tensor 0 (diagonal), all sizes equal
        ("aab,bc,ca->", dict(a=3, b=3, c=3), [(0, 1), (0, 1)], "a"),
        # 'a' repeated on tensor 0, output kept, different sizes
        ("aab,bc,cad->d", dict(a=2, b=3, c=4, d=5), [(1, 2), (0, 1)], "a"),
        # 'e' only lives on tensor 0 (summed in preprocessing), slice 'b'
        ("eab,bc,ca->", dict(a=2, b=3, c=4, e=5), [(0, 2), (0, 1)], "b"),
        # trace on tensor 1 + hyper index 'c', slice the hyper index
        ("ac,ddc,cb->ab", dict(a=2, b=3, c=4, d=5), [(0, 1), (0, 1)], "c"),
    ]

    for eq, sd, path, ix in cases:
        # control: plain contraction of a fresh tree
        tree, arrays, expected = build(eq, sd, path)
        compare(f"[control] {eq}", tree, arrays, expected, bad)

        for opts in (
            {},
            {"prefer_einsum": True},
            {"implementation": "autoray"},
            {"order": len},
        ):
            tree, arrays, expected = build(eq, sd, path)
            tree.contraction_cost()  # inspect -> leaf legs are now cached
            sliced = tree.remove_ind(ix)  # a sliced COPY, original untouched?
            assert sliced is not tree and not tree.sliced_inds
            compare(
                f"[after remove_ind({ix!r}) on a copy] {eq}",
                tree,
                arrays,
                expected,
                bad,
                **opts,
            )

        # same, but the original was already contracted once with default
        # options (cached contractor) and is now contracted with other options
        tree, arrays, expected = build(eq, sd, path)
        compare(f"[first contraction] {eq}", tree, arrays, expected, bad)
        tree.slice(target_slices=2)  # non-inplace: returns a sliced copy
        tree.remove_ind(ix)
        compare(
            f"[re-contract after slicing copies] {eq}",
            tree,
            arrays,
            expected,
            bad,
            prefer_einsum=True,
        )

    if bad:
        print("FAIL: unsliced tree no longer contracts to np.einsum:")
        print("\n".join(bad))
        sys.exit(1)
    print("OK: original trees unaffected by slicing their copies")


if __name__ == "__main__":
    main()
