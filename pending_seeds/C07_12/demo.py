"""C07 demo: indices the slice search was forbidden to touch are never sliced,
whichever driver runs the search.

``allow_outer=False`` -> no output index may be sliced,
``allow_outer='only'`` -> nothing but output indices may be sliced.

The networks have two output indices that are bigger than the inner ones and
sit on the largest intermediate, so that they are the most attractive ones to
slice if nothing forbids it (but the target can be met either way).
"""
import random
import sys

import cotengra as ctg


def make_tree(seed):
    inputs, output, _, size_dict = ctg.utils.rand_equation(
        20, 3, n_out=2, d_min=2, d_max=2, seed=seed
    )
    for ix in output:
        size_dict[ix] = 4
    tree = ctg.array_contract_tree(
        inputs, output, size_dict, optimize="greedy"
    )
    return tree


def check(tree, label, driver, allow_outer, **opts):
    # the forested driver takes no seed: pin the global generator
    random.seed(7)
    target_size = max(tree.max_size() // 4, 1)
    sliced = getattr(tree, driver)(
        target_size, allow_outer=allow_outer, **opts
    )
    chosen = set(sliced.sliced_inds)
    outer = set(tree.output)
    if allow_outer == "only":
        bad = chosen - outer
    else:
        bad = chosen & outer
    if bad:
        print(
            f"FAIL [{label}]: {driver}(allow_outer={allow_outer!r}) sliced "
            f"{sorted(chosen)}, of which {sorted(bad)} were forbidden "
            f"(output={sorted(outer)})"
        )
        return False
    if sliced.max_size() > target_size:
        print(f"FAIL [{label}]: target_size {target_size} not reached")
        return False
    return True


def main():
    ok = True
    for seed in (0, 2, 5, 7):
        tree = make_tree(seed)
        for allow_outer in (False, "only"):
            ok &= check(
                tree,
                f"seed={seed}",
                "slice_and_reconfigure",
                allow_outer,
            )
            ok &= check(
                tree,
                f"seed={seed}",
                "slice_and_reconfigure_forest",
                allow_outer,
                num_trees=2,
                parallel=False,
            )
    if not ok:
        sys.exit(1)
    print("OK: no forbidden index was sliced")


if __name__ == "__main__":
    main()
