"""C02 demo: slice an *output* index, restore it again (directly, or through
unslice_all / the 'unslice then reslice' step used by annealing), then
contract.  The tree must still give the plain einsum value, with the declared
output order."""
import sys

import numpy as np

import cotengra as ctg

inputs = [("a", "b", "x"), ("b", "c"), ("c", "d", "y"), ("d", "a")]
output = ("y", "x")
size_dict = {"a": 2, "b": 3, "c": 2, "d": 3, "x": 4, "y": 5}
eq = ctg.utils.inputs_output_to_eq(inputs, output)

arrays = ctg.utils.make_arrays_from_inputs(inputs, size_dict, seed=3)
expected = np.einsum(eq, *arrays)

tree = ctg.ContractionTree.from_path(
    inputs, output, size_dict, path=[(0, 1), (0, 1), (0, 1)]
)


def check(tree, what):
    try:
        x = tree.contract(arrays)
    except Exception as e:  # noqa
        print(f"FAIL ({what}): contraction raised {type(e).__name__}: {e}")
        sys.exit(1)
    if np.shape(x) != expected.shape or not np.allclose(x, expected):
        print(
            f"FAIL ({what}): got shape {np.shape(x)}, expected shape "
            f"{expected.shape}; root legs {tuple(tree.get_legs(tree.root))}, "
            f"output {tree.output}, sliced {tuple(tree.sliced_inds)}"
        )
        sys.exit(1)


check(tree, "fresh tree")

# control: the same round trip with an inner index
t = tree.remove_ind("b")
check(t, "sliced inner b")
check(t.restore_ind("b"), "sliced then restored inner b")

# restructuring the top of the tree (removes and re-adds the root)
t = tree.subtree_reconfigure(subtree_size=4)
check(t, "reconfigured")
t = tree.simulated_anneal(tsteps=3, numiter=3, seed=1)
check(t, "annealed")

# the round trip with an output index
t = tree.remove_ind("x")
check(t, "sliced output x")
t = t.restore_ind("x")
check(t, "sliced then restored output x")

# same with both output indices, restoring only one / all of them
t = tree.remove_ind("x").remove_ind("y")
check(t, "sliced x, y")
check(t.restore_ind("y"), "sliced x, y then restored y")
check(t.unslice_all(), "sliced x, y then unslice_all")

# and mixed with inner slicing, as the annealing 'basic' slice mode does
t = tree.remove_ind("x").remove_ind("b")
t.unslice_rand_(seed=0)
t.unslice_rand_(seed=0)
t.remove_ind_("d")
check(t, "sliced x, b; unsliced both; sliced d")

print("OK")
