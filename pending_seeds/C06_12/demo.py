"""C06 demo: "a projected index contributes exactly its chosen value", checked
through the functional interface with an explicit tree as ``optimize``.

For every index of a small network we project it onto each of its values in
turn (a fresh tree each time, then the same index really sliced) and contract
with ``array_contract``: every projected result must match a plain einsum
restricted to that value, and the projections must add up to the full result.
"""
import sys

import numpy as np

import cotengra as ctg

eq = "ab,bcd,de,ef->acf"
inputs, output = ctg.utils.eq_to_inputs_output(eq)
size_dict = {"a": 2, "b": 3, "c": 3, "d": 2, "e": 2, "f": 3}
rng = np.random.default_rng(11)
arrays = [rng.normal(size=[size_dict[ix] for ix in t]) for t in inputs]
full = np.einsum(eq, *arrays)

base = ctg.array_contract_tree(
    inputs, output, size_dict, optimize="greedy", canonicalize=False
)


def reference(ix, j):
    restricted = [
        x[tuple(slice(j, j + 1) if i == ix else slice(None) for i in term)]
        for term, x in zip(inputs, arrays)
    ]
    return np.einsum(eq, *restricted)


def contract_with(tree):
    return np.asarray(
        ctg.array_contract(
            arrays, inputs, output, size_dict=size_dict, optimize=tree
        )
    )


failures = []
for ix in sorted(size_dict):
    parts = []
    for j in range(size_dict[ix]):
        tree = base.remove_ind(ix, project=j)
        got = contract_with(tree)
        want = reference(ix, j)
        direct = np.asarray(tree.contract(arrays))
        if not np.allclose(direct, want):
            failures.append(f"tree.contract wrong for {ix} projected onto {j}")
        if got.shape != want.shape or not np.allclose(got, want):
            k = [
                v
                for v in range(size_dict[ix])
                if got.shape == want.shape
                and np.allclose(got, reference(ix, v))
            ]
            failures.append(
                f"array_contract with '{ix}' projected onto {j} returned "
                + (f"the contribution of value {k[0]}" if k else "a wrong result")
            )
        parts.append(got)
    # summing (inner) or concatenating (output) the projections gives the lot
    if ix in output:
        total = np.concatenate(parts, axis=output.index(ix))
    else:
        total = sum(parts)
    if total.shape != full.shape or not np.allclose(total, full):
        failures.append(f"projections of '{ix}' do not add up to the full result")
    # the same index really sliced: all values contribute
    got = contract_with(base.remove_ind(ix))
    if got.shape != full.shape or not np.allclose(got, full):
        failures.append(f"array_contract with '{ix}' sliced is wrong")

if failures:
    print(f"C06 VIOLATED ({len(failures)} problems), e.g.")
    for line in failures[:8]:
        print("  ", line)
    sys.exit(1)

print("ok: every projected index contributes exactly its chosen value")
