"""C05 demo 3: greedy / optimal / auto path finders on networks that fall apart
into three or more disconnected pieces, some of which contract to scalars.

Exits 0 if every returned linear path consumes every input exactly once and
ends in a single tensor, non-zero (with a message) otherwise.
"""
import sys

import cotengra as ctg
from cotengra.interface import find_path


def check_linear_path(path, n):
    m = n
    for k, con in enumerate(path):
        con = tuple(con)
        if len(set(con)) != len(con):
            return f"step {k} {con} repeats a position"
        if any((p < 0) or (p >= m) for p in con):
            return f"step {k} {con} references a position >= {m}"
        m = m - len(con) + 1
    if m != 1:
        return f"path {list(map(tuple, path))} leaves {m} tensors, not 1"
    return None


EQS = [
    # controls: connected / two pieces / three open pieces
    "ab,bc,cd->ad",
    "ab,bc,ca,de,ef,fd->",
    "ab,bc,de,ef,gh,hi->acdfgi",
    # three closed loops -> three scalars are left over
    "ab,bc,ca,de,ef,fd,gh,hi,ig->",
    # two closed loops and an open chain
    "ab,bc,ca,de,ef,fd,gh,hi->gi",
    # two closed loops and two open pieces
    "ab,bc,ca,de,ef,fd,gh,ij->ghij",
    # same but with a hyper index and a traced index thrown in
    "abx,bcx,cax,dde,ef,fe,gh,hi,ig,jk->jk",
]


def optimizers():
    yield "preset 'greedy'", "greedy"
    yield "preset 'optimal'", "optimal"
    yield "preset 'auto'", "auto"
    yield "preset 'auto-hq'", "auto-hq"
    yield (
        "GreedyOptimizer(costmod=2.0)",
        ctg.GreedyOptimizer(costmod=2.0, accel=False),
    )
    yield (
        "RandomGreedyOptimizer(max_repeats=4, seed=0)",
        ctg.RandomGreedyOptimizer(
            max_repeats=4, seed=0, accel=False, parallel=False
        ),
    )


problems = []
for eq in EQS:
    inputs, output = ctg.utils.eq_to_inputs_output(eq)
    size_dict = ctg.utils.make_rand_size_dict_from_inputs(inputs, seed=11)
    n = len(inputs)
    for name, opt in optimizers():
        try:
            path = find_path(inputs, output, size_dict, optimize=opt)
            msg = check_linear_path(path, n)
        except Exception as e:  # noqa
            msg = f"raised {e!r}"
        if msg is not None:
            problems.append(f"{name} on '{eq}' ({n} tensors): {msg}")

if problems:
    print("C05 VIOLATED: incomplete or ill-formed contraction returned")
    for p in problems:
        print("  -", p)
    sys.exit(1)

print("ok: all paths complete")
