"""C06 demo: slices are reassembled correctly when sliced and projected
indices are mixed.

For a small network we try every ordered subset (up to three indices) of
indices to remove, every index either sliced or projected onto its last value,
contract all slices, and compare the gathered result with the reference
obtained from a plain einsum (a projected index is restricted to the chosen
value and, if it is an output index, stays as a unit axis at its position).
"""
import itertools
import sys

import numpy as np

import cotengra as ctg

eq = "ab,bcd,de,ef->acf"
inputs, output = ctg.utils.eq_to_inputs_output(eq)
size_dict = {"a": 2, "b": 3, "c": 3, "d": 2, "e": 2, "f": 3}
rng = np.random.default_rng(7)
arrays = [rng.normal(size=[size_dict[ix] for ix in t]) for t in inputs]

base = ctg.array_contract_tree(
    inputs, output, size_dict, optimize="greedy", canonicalize=False
)


def reference(projections):
    restricted = []
    for term, x in zip(inputs, arrays):
        sel = tuple(
            slice(projections[ix], projections[ix] + 1)
            if ix in projections
            else slice(None)
            for ix in term
        )
        restricted.append(x[sel])
    return np.einsum(eq, *restricted)


failures = []
ncheck = 0
inds = sorted(size_dict)
for n in (1, 2, 3):
    for subset in itertools.permutations(inds, n):
        for modes in itertools.product("sp", repeat=n):
            tree = base.copy()
            projections = {}
            for ix, mode in zip(subset, modes):
                if mode == "p":
                    projections[ix] = size_dict[ix] - 1
                    tree.remove_ind_(ix, project=projections[ix])
                else:
                    tree.remove_ind_(ix)
            expected = reference(projections)
            desc = ", ".join(
                f"{ix}={'slice' if m == 's' else 'project'}"
                for ix, m in zip(subset, modes)
            )
            ncheck += 1
            try:
                got = np.asarray(tree.contract(arrays))
            except Exception as e:  # noqa
                failures.append(f"[{desc}] raised {type(e).__name__}: {e}")
                continue
            if got.shape != expected.shape:
                failures.append(
                    f"[{desc}] shape {got.shape}, expected {expected.shape}"
                )
            elif not np.allclose(got, expected):
                failures.append(f"[{desc}] values differ from the reference")

if failures:
    print(
        f"C06 VIOLATED: {len(failures)}/{ncheck} slice/projection "
        f"combinations of '{eq}' are gathered wrongly, e.g."
    )
    for line in failures[:6]:
        print("  ", line)
    sys.exit(1)

print(f"ok: {ncheck} slice/projection combinations reproduce the reference")
