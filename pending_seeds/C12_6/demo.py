"""C12 demo: implicit-output einsum equations whose free indices mix lower
and upper case letters must order the output axes exactly like numpy.einsum
(sorted by code point, i.e. 'A'..'Z' before 'a'..'z')."""
import sys

import numpy as np

import cotengra as ctg

rng = np.random.default_rng(12006)

cases = [
    # (equation, shapes)
    ("ab,bC", [(2, 3), (3, 4)]),
    ("xK,Ky,yZ", [(2, 3), (3, 4), (4, 5)]),
    ("bA", [(2, 3)]),
    ("a...,...B", [(2, 4), (4, 3)]),
    ("iJ,Jk,kL,Lm", [(2, 3), (3, 4), (4, 5), (5, 3)]),
    # controls: single-case equations
    ("ab,bc", [(2, 3), (3, 4)]),
    ("BA,AC", [(2, 3), (3, 4)]),
]

bad = []
for eq, shapes in cases:
    arrays = [rng.normal(size=s) for s in shapes]
    expected = np.einsum(eq, *arrays)
    try:
        got = ctg.einsum(eq, *arrays)
    except Exception as e:  # noqa
        bad.append(f"{eq!r}: raised {e!r}")
        continue
    got = np.asarray(got)
    if got.shape != expected.shape:
        bad.append(
            f"{eq!r}: numpy output shape {expected.shape}, "
            f"cotengra output shape {got.shape}"
        )
    elif not np.allclose(got, expected):
        bad.append(f"{eq!r}: values differ from numpy.einsum")

if bad:
    print("FAIL: cotengra.einsum disagrees with numpy.einsum on implicit output")
    for b in bad:
        print("  ", b)
    sys.exit(1)

print("OK: all implicit-output equations match numpy.einsum")
