"""C10 demo: linear <-> SSA conversion must be an exact inverse pair, also for
complete paths that contain steps contracting three or more tensors at once
(e.g. the steps an edge path produces for a hyper index) when ``N`` is left to
be inferred from the path."""
import random
import sys

import cotengra as ctg
from cotengra.pathfinders.path_basic import (
    edge_path_to_ssa,
    linear_to_ssa,
    ssa_to_linear,
)


def norm(path):
    return tuple(tuple(sorted(p)) for p in path)


def fail(msg):
    print("FAIL:", msg)
    sys.exit(1)


def check(ssa_path, N, what):
    ssa_path = norm(ssa_path)
    ref_linear = norm(ssa_to_linear(ssa_path, N))
    try:
        got_linear = norm(ssa_to_linear(ssa_path))
    except Exception as e:  # noqa
        fail(f"{what}: ssa_to_linear({ssa_path}) raised {e!r}")
    if got_linear != ref_linear:
        fail(
            f"{what}: ssa_to_linear({ssa_path}) = {got_linear}, "
            f"but with N={N} given it is {ref_linear}"
        )
    try:
        back = norm(linear_to_ssa(got_linear))
    except Exception as e:  # noqa
        fail(f"{what}: linear_to_ssa({got_linear}) raised {e!r}")
    if back != ssa_path:
        fail(
            f"{what}: linear_to_ssa(ssa_to_linear(p)) = {back} != p = "
            f"{ssa_path}"
        )
    return got_linear


# 1. a hyper index 'x' shared by three tensors: eliminating it first contracts
#    all three of them in a single step
inputs = [("a", "x"), ("b", "x"), ("c", "x"), ("a", "b", "c")]
output = ()
size_dict = dict.fromkeys("abcx", 2)
ssa_path = edge_path_to_ssa(["x", "a", "b", "c"], inputs)
if norm(ssa_path) != ((0, 1, 2), (3, 4)):
    fail(f"unexpected ssa path from edge path: {ssa_path}")
linear = check(ssa_path, len(inputs), "hyper edge path")

t_ssa = ctg.ContractionTree.from_path(
    inputs, output, size_dict, ssa_path=ssa_path
)
t_lin = ctg.ContractionTree.from_path(inputs, output, size_dict, path=linear)
# (how the three-tensor step is split into pairs is up to the sub-optimizer,
# but both trees must contain the intermediate made of tensors 0, 1 and 2)
want = frozenset([0, 1, 2])
for name, t in [("ssa", t_ssa), ("linear", t_lin)]:
    if not t.is_complete() or want not in set(map(frozenset, t.children)):
        fail(f"tree from the {name} path lacks the intermediate {{0, 1, 2}}")

# 2. random complete paths mixing steps of 1, 2, 3 and 4 tensors
rng = random.Random(0)
for trial in range(200):
    N = rng.randint(2, 9)
    live = list(range(N))
    ssa = N
    path = []
    while len(live) > 1:
        k = min(len(live), rng.choice([1, 2, 2, 2, 3, 4]))
        if k == 1 and rng.random() < 0.5:
            k = min(len(live), 2)
        step = rng.sample(live, k)
        for s in step:
            live.remove(s)
        live.append(ssa)
        ssa += 1
        path.append(tuple(step))
    check(path, N, f"random path {trial}")

print("OK: linear <-> ssa round trips with inferred N are exact")
