"""C01 demo: contracting through a tree must give np.einsum, in the declared
axis order, for every combination of execution options.

Looks at dot-like (no hyper index) contractions whose declared output order is
not the 'left kept indices, then right kept indices' order of tensordot, and
contracts them with prefer_einsum in {False, True} x implementation in
{auto, cotengra, autoray} x two traversal orders.
"""

import sys

import numpy as np

import cotengra as ctg


def check(eq, size_dict, path, seed):
    lhs, out = eq.split("->")
    inputs = [tuple(t) for t in lhs.split(",")]
    output = tuple(out)
    rng = np.random.default_rng(seed)
    arrays = [
        rng.normal(size=[size_dict[ix] for ix in term]) for term in inputs
    ]
    expected = np.einsum(eq, *arrays)

    bad = []
    for prefer_einsum in (False, True):
        for implementation in ("auto", "cotengra", "autoray"):
            for order in ("dfs", len):
                # fresh tree every time, so nothing is shared between options
                tree = ctg.ContractionTree.from_path(
                    inputs, output, size_dict, path=path
                )
                got = tree.contract(
                    arrays,
                    order=order,
                    prefer_einsum=prefer_einsum,
                    implementation=implementation,
                )
                ok = np.shape(got) == expected.shape and np.allclose(
                    got, expected
                )
                if not ok:
                    bad.append(
                        f"  eq={eq} path={path} prefer_einsum={prefer_einsum} "
                        f"implementation={implementation} "
                        f"order={getattr(order, '__name__', order)}: "
                        f"shape {np.shape(got)} vs {expected.shape}"
                    )
    return bad


def main():
    cases = [
        # matrix product, transposed output
        ("ab,bc->ca", dict(a=2, b=3, c=4), [(0, 1)]),
        # all sizes equal -> the result has the right shape, wrong numbers
        ("ab,bc->ca", dict(a=3, b=3, c=3), [(0, 1)]),
        # 3-cycle of the tensordot order at the root, natural order below
        ("ab,bc,cde->eda", dict(a=2, b=3, c=4, d=5, e=2), [(0, 1), (0, 1)]),
        ("ab,bc,cde->eda", dict(a=2, b=3, c=4, d=5, e=2), [(1, 2), (0, 1)]),
        # outer product with interleaved output
        ("ab,cd->cadb", dict(a=2, b=3, c=4, d=5), [(0, 1)]),
        # natural order: nothing to transpose (control)
        ("ab,bc,cd->ad", dict(a=2, b=3, c=4, d=5), [(0, 1), (0, 1)]),
    ]
    bad = []
    for i, (eq, size_dict, path) in enumerate(cases):
        bad += check(eq, size_dict, path, seed=i)

    if bad:
        print("FAIL: tree contraction differs from np.einsum for:")
        print("\n".join(bad))
        sys.exit(1)
    print("OK: all option combinations agree with np.einsum")


if __name__ == "__main__":
    main()
