"""C08 demo: the figures recorded for the winning trial must be the true
figures of the returned tree *for the queried contraction*.

Two independent compressed searches are run one after the other in the same
process (serial trials, ``parallel=False``), both with ``chi=None`` which is
documented as "use the square of the largest existing dimension" of the
network being optimized.  The first network has bond dimension 2 (chi -> 4),
the second has bond dimension 4 (chi -> 16).  For each search we check

  * no more trials than requested were run,
  * the returned trial is the arg-min of the recorded scores,
  * the recorded flops / write / size of the winner equal the figures obtained
    by re-evaluating the returned tree from scratch with the chi that belongs
    to *that* network.
"""

import sys
import warnings

import cotengra as ctg

warnings.filterwarnings("ignore")


def fail(msg):
    print("C08 VIOLATION:", msg)
    sys.exit(1)


def run(name, dims, d, repeats=6):
    inputs, output, _, size_dict = ctg.utils.lattice_equation(
        dims, d_min=d, d_max=d, seed=7
    )
    opt = ctg.HyperCompressedOptimizer(
        chi=None,
        methods=["greedy-span"],
        minimize="peak-compressed",
        max_repeats=repeats,
        parallel=False,
        optlib="random",
        seed=1234,
        on_trial_error="raise",
    )
    tree = opt.search(inputs, output, size_dict)

    if len(opt.scores) > repeats:
        fail(f"{name}: ran {len(opt.scores)} trials, requested {repeats}")
    if not tree.is_complete():
        fail(f"{name}: returned tree is not complete")
    if tuple(map(tuple, tree.inputs)) != tuple(map(tuple, inputs)):
        fail(f"{name}: returned tree is for another contraction")
    if opt.best["score"] != min(opt.scores):
        fail(f"{name}: best score {opt.best['score']} != min {min(opt.scores)}")
    i = opt.scores.index(min(opt.scores))

    # the true figures of the returned tree for *this* network
    chi = max(size_dict.values()) ** 2
    stats = tree.compressed_contract_stats(chi=chi)
    true = {
        "flops": stats.flops,
        "write": stats.write,
        "size": stats.peak_size,
    }
    rec_best = {k: opt.best[k] for k in true}
    rec_list = {
        "flops": opt.costs_flops[i],
        "write": opt.costs_write[i],
        "size": opt.costs_size[i],
    }
    print(f"{name}: chi={chi} recorded={rec_best} true={true}")
    if rec_best != true:
        fail(
            f"{name}: recorded winner figures {rec_best} differ from the "
            f"returned tree's true figures {true} (chi={chi})"
        )
    if rec_list != true:
        fail(f"{name}: cost lists {rec_list} differ from true {true}")


run("search-1 (D=2)", [4, 4], 2)
run("search-2 (D=4)", [4, 4], 4)
print("OK")
