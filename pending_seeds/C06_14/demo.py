"""C06 demo: the documented manual workflow - contract every slice on its own
(e.g. on different workers), keep the per-slice results, and combine them with
``tree.gather_slices``. Combining the same per-slice results must always
reproduce the unsliced contraction, and must leave the per-slice results alone.
"""
import sys

import numpy as np

import cotengra as ctg


def fail(msg):
    print("FAIL:", msg)
    sys.exit(1)


def run(tree, arrays, ref, label):
    n = tree.nslices
    slices = [tree.contract_slice(arrays, i) for i in range(n)]
    keep = [np.array(s, copy=True) for s in slices]

    # each slice is the contraction with the sliced indices fixed
    eq_sliced = tree.get_eq_sliced()
    for i in range(n):
        want = np.einsum(eq_sliced, *tree.slice_arrays(arrays, i))
        if not np.allclose(slices[i], want):
            fail(f"{label}: slice {i} is wrong to begin with")

    x1 = tree.gather_slices(slices)
    if not np.allclose(x1, ref):
        fail(f"{label}: first gather_slices differs from unsliced result")

    # gathering the very same per-slice results again (e.g. after a retry)
    x2 = tree.gather_slices(slices)
    if not np.allclose(x2, ref):
        fail(
            f"{label}: second gather_slices of the same per-slice results "
            f"differs from the unsliced result (max err "
            f"{np.max(np.abs(x2 - ref)):.3g})"
        )

    for i in range(n):
        if not np.array_equal(slices[i], keep[i]):
            fail(
                f"{label}: gather_slices changed the stored result of slice "
                f"{i} (key {tree.slice_key(i)}): it no longer is the "
                "contraction with the sliced indices fixed to that key"
            )


def main():
    inputs, output, shapes, size_dict = ctg.utils.rand_equation(
        n=10, reg=3, n_out=2, d_min=2, d_max=3, seed=3
    )
    arrays = ctg.utils.make_arrays_from_inputs(inputs, size_dict, seed=1)
    eq = ctg.utils.inputs_output_to_eq(inputs, output)
    ref = np.einsum(eq, *arrays, optimize="greedy")
    base = ctg.array_contract_tree(
        inputs, output, size_dict, optimize="greedy", canonicalize=False
    )

    # inner indices only -> plain sum
    t = base.copy()
    t.remove_ind_("c")
    t.remove_ind_("e")
    run(t, arrays, ref, "inner only")

    # inner and output indices -> partial sums, then stacking
    t = base.copy()
    t.remove_ind_("g")
    t.remove_ind_("b")
    t.remove_ind_("f")
    t.remove_ind_("a")
    run(t, arrays, ref, "inner + output")

    print("OK")


if __name__ == "__main__":
    main()
