"""C18 demo: the contraction tree and the lightweight processor must derive
the same legs, sizes and flops for the same contraction steps, also when a
tree node is created by a multi-way step (``contract_nodes`` on > 2 nodes, as
used by the partition based optimizers, ``from_path`` with n-ary steps and
autocompletion), on networks that have a diagonal hyper index (an index
repeated inside one tensor *and* shared with other tensors)."""
import sys

import cotengra as ctg
from cotengra.pathfinders.path_basic import ContractionProcessor

problems = []

cases = [
    # (inputs, output, size_dict, groups to contract as single n-ary steps)
    (
        [("a", "a", "b"), ("a", "c"), ("b", "c", "d"), ("d", "e"), ("e", "f")],
        ("f",),
        {"a": 5, "b": 2, "c": 3, "d": 4, "e": 2, "f": 3},
        [(0, 1, 2), (3, 4)],
    ),
    (
        [("x", "x", "p"), ("x", "q"), ("x", "r"), ("p", "q", "r", "s"),
         ("s", "t")],
        ("t",),
        {"x": 4, "p": 2, "q": 3, "r": 2, "s": 5, "t": 2},
        [(0, 1, 2), (3, 4)],
    ),
    # control: hyper index without repeats
    (
        [("a", "b"), ("a", "c"), ("a", "b", "c", "d"), ("d", "e"), ("e", "f")],
        ("f",),
        {"a": 5, "b": 2, "c": 3, "d": 4, "e": 2, "f": 3},
        [(0, 1, 2), (3, 4)],
    ),
]

for inputs, output, size_dict, groups in cases:
    # tree built with multi-way steps
    tree = ctg.ContractionTree(inputs, output, size_dict)
    tops = [
        tree.contract_nodes(
            [frozenset([i]) for i in g], optimize="greedy"
        )
        for g in groups
    ]
    tree.contract_nodes(tops, optimize="greedy")
    assert tree.is_complete()

    # reference 1: the same binary tree built pairwise from its own ssa path
    ssa_path = tree.get_ssa_path()
    ref = ctg.ContractionTree.from_path(
        inputs, output, size_dict, ssa_path=ssa_path
    )

    # reference 2: the lightweight processor following the same path
    cp = ContractionProcessor(inputs, output, size_dict, track_flops=True)
    cp.simplify_single_terms()
    nsimp = len(cp.ssa_path)
    remap = {}
    # leaves which were simplified got a new ssa id in the processor
    for (i,), new in zip(cp.ssa_path, range(len(inputs), len(inputs) + nsimp)):
        remap[i] = new
    ssa = len(inputs)
    inv = {v: k for k, v in cp.indmap.items()}
    for i, j in ssa_path:
        k = cp.contract_nodes(remap.get(i, i), remap.get(j, j))
        remap[ssa] = k
        ssa += 1

    for node in tree.children:
        got = (
            dict(tree.get_legs(node)) if len(node) != tree.N
            else sorted(tree.get_legs(node)),
            tree.get_size(node),
            tree.get_flops(node),
        )
        want = (
            dict(ref.get_legs(node)) if len(node) != tree.N
            else sorted(ref.get_legs(node)),
            ref.get_size(node),
            ref.get_flops(node),
        )
        if got != want:
            problems.append(
                f"{inputs}->{output}: node {sorted(node)} has "
                f"(legs, size, flops)={got} in the tree built with n-ary "
                f"steps but {want} when built pairwise"
            )

    if tree.contraction_cost() != cp.flops:
        problems.append(
            f"{inputs}->{output}: tree flops {tree.contraction_cost()} != "
            f"processor flops {cp.flops} for the same path {ssa_path}"
        )
    if tree.contract_stats() != ref.contract_stats():
        problems.append(
            f"{inputs}->{output}: stats {tree.contract_stats()} != "
            f"{ref.contract_stats()} of the tree rebuilt from the same path"
        )

if problems:
    print("C18 VIOLATED:")
    for p in problems:
        print("  -", p)
    sys.exit(1)
print("ok: n-ary built tree, pairwise built tree and processor all agree")
