"""C03 demo: peak_size(order=f) for caller supplied traversal priorities.

For several priority functions ``f`` (not necessarily growing from child to
parent) the peak reported by ``tree.peak_size(order=f)`` must equal the peak
of the memory ledger recomputed independently from the network alone for the
very sequence of steps ``tree.traverse(order=f)`` / the contractor performs,
and that sequence must be executable (both operands exist when a step runs).
The arrays really produced must have the sizes the tree reports.
"""
import sys
import random
from math import prod

import numpy as np

import cotengra as ctg


def make_sizes(tree):
    inputs, output, sd = tree.inputs, tree.output, tree.size_dict
    total = {}
    for term in inputs:
        for ix in term:
            total[ix] = total.get(ix, 0) + 1
    for ix in output:
        total[ix] = total.get(ix, 0) + 1

    def size(node):
        if len(node) == len(inputs):
            return prod(sd[ix] for ix in output)
        c = {}
        for i in node:
            for ix in inputs[i]:
                c[ix] = c.get(ix, 0) + 1
        return prod(sd[ix] for ix, n in c.items() if n < total[ix])

    return size


def independent_peak(tree, steps):
    """Memory ledger: inputs resident, each step allocates the parent while
    both children are still held, then frees the children."""
    size = make_sizes(tree)
    live = {frozenset([i]) for i in range(tree.N)}
    held = sum(size(n) for n in live)
    peak = held
    for k, (p, l, r) in enumerate(steps):
        for c in (l, r):
            if c not in live:
                raise RuntimeError(
                    f"step {k} consumes node {sorted(c)} before it exists"
                )
        held += size(p)
        peak = max(peak, held)
        held -= size(l) + size(r)
        live -= {l, r}
        live.add(p)
    return peak


def executed_peak(tree, arrays, order):
    """Run the contractor with spies and record the live element count."""
    held = [sum(a.size for a in arrays)]
    peak = [held[0]]
    sizes = []

    def note(out, a, b):
        held[0] += out.size
        peak[0] = max(peak[0], held[0])
        held[0] -= a.size + b.size
        sizes.append(out.size)
        return out

    def spy_einsum(eq, a, b=None):
        if b is None:
            return np.einsum(eq, a)
        return note(np.einsum(eq, a, b), a, b)

    def spy_tensordot(a, b, axes):
        return note(np.tensordot(a, b, axes), a, b)

    x = tree.contract(
        arrays, order=order, implementation=(spy_einsum, spy_tensordot)
    )
    return x, peak[0], sizes


def main():
    rc = 0
    for seed in range(4):
        con = ctg.utils.rand_equation(12, 3, n_out=2, n_hyper_in=1, seed=seed)
        inputs, output, shapes, size_dict = con
        tree = ctg.array_contract_tree(
            inputs, output, size_dict, optimize="greedy", canonicalize=False
        )
        arrays = ctg.utils.make_arrays_from_inputs(inputs, size_dict, seed=seed)
        expected = np.einsum(
            ctg.utils.inputs_output_to_eq(inputs, output), *arrays
        )

        rng = random.Random(seed)
        prio = {node: rng.random() for node in tree.children}
        orders = {
            "dfs": "dfs",
            "small-first": len,
            "cheap-first": tree.get_flops,
            "big-first": lambda node: -len(node),
            "costly-first": lambda node: -tree.get_flops(node),
            "random": prio.__getitem__,
        }
        for name, order in orders.items():
            steps = list(tree.traverse(order=order))
            reported = tree.peak_size(order=order)
            try:
                want = independent_peak(tree, steps)
            except RuntimeError as e:
                print(f"FAIL seed={seed} order={name}: {e}; "
                      f"peak_size reported {reported}")
                rc = 1
                continue
            if reported != want:
                print(f"FAIL seed={seed} order={name}: peak_size reports "
                      f"{reported}, ledger gives {want}")
                rc = 1
                continue
            try:
                x, run_peak, sizes = executed_peak(tree, arrays, order)
            except Exception as e:  # noqa
                print(f"FAIL seed={seed} order={name}: contraction raised "
                      f"{type(e).__name__}: {e}")
                rc = 1
                continue
            if not np.allclose(x, expected):
                print(f"FAIL seed={seed} order={name}: wrong value")
                rc = 1
            if sizes != [tree.get_size(p) for p, _, _ in steps]:
                print(f"FAIL seed={seed} order={name}: produced array sizes "
                      "differ from the reported ones")
                rc = 1
            if run_peak != reported:
                print(f"FAIL seed={seed} order={name}: executed peak "
                      f"{run_peak} != reported {reported}")
                rc = 1
    print("OK" if rc == 0 else "violations found")
    return rc


if __name__ == "__main__":
    sys.exit(main())
