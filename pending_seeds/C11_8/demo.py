"""C11 demo: cotengra's matmul based two-operand einsum must agree with
numpy.einsum, exhaustively for all equations over the symbols 'abc' with
operand rank <= 3 (plus a few rank 4 ones), every output order and every
consistent shape assignment from {1, 2, 3}.
"""
import itertools
import sys

import numpy as np
import cotengra  # noqa: F401

cc = sys.modules["cotengra.contract"]
rng = np.random.default_rng(11)

SYMS = "abc"
SIZES = (1, 2, 3)


def terms(max_rank):
    for r in range(max_rank + 1):
        for t in itertools.product(SYMS, repeat=r):
            yield "".join(t)


def equations():
    for a in terms(3):
        for b in terms(3):
            uniq = "".join(dict.fromkeys(a + b))
            # canonical naming: symbols appear in order of first use
            if uniq != SYMS[: len(uniq)]:
                continue
            for k in range(len(uniq) + 1):
                for out in itertools.permutations(uniq, k):
                    yield a, b, "".join(out), uniq
    # a handful of rank 4 operands
    for a, b, out in [
        ("abca", "cb", "a"),
        ("ab", "bcca", "ca"),
        ("ab", "bccb", "ac"),
        ("abab", "bc", "ac"),
        ("aabc", "cbb", "ab"),
        ("abc", "cabb", "b"),
    ]:
        yield a, b, out, "abc"


ncase = 0
bad = []
for a_term, b_term, out, uniq in equations():
    eq = f"{a_term},{b_term}->{out}"
    for dims in itertools.product(SIZES, repeat=len(uniq)):
        size = dict(zip(uniq, dims))
        shp_a = tuple(size[ix] for ix in a_term)
        shp_b = tuple(size[ix] for ix in b_term)
        x = rng.integers(-3, 4, size=shp_a).astype(float)
        y = rng.integers(-3, 4, size=shp_b).astype(float)
        expected = np.einsum(eq, x, y)
        ncase += 1
        try:
            got = np.asarray(cc.einsum(eq, x, y))
        except Exception as e:  # noqa: BLE001
            bad.append((eq, shp_a, shp_b, f"raised {type(e).__name__}: {e}"))
            continue
        if got.shape != expected.shape:
            bad.append(
                (eq, shp_a, shp_b, f"shape {got.shape} != {expected.shape}")
            )
        elif not np.allclose(got, expected):
            bad.append((eq, shp_a, shp_b, "same shape but wrong values"))

print(f"checked {ncase} two-operand cases, {len(bad)} disagree")
if bad:
    for eq, sa, sb, msg in bad[:8]:
        print(f"  einsum({eq!r}, x, y) with shapes {sa}, {sb}: {msg}")
    print("FAIL: cotengra's matmul based einsum disagrees with numpy.einsum")
    sys.exit(1)
print("OK")
