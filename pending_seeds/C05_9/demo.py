"""C05 demo: greedy path finding with a non-zero temperature has to return a
complete, well-formed contraction for every network, including ones with
hyper-indices (an index shared by three or more tensors) whose candidate
contractions neither grow nor shrink the total size.
"""
import sys
import traceback
import warnings

import cotengra as ctg
from cotengra.pathfinders.path_greedy import trial_greedy

warnings.simplefilter("ignore")


def check_linear_path(path, n):
    remaining = n
    for step in path:
        step = tuple(step)
        assert len(set(step)) == len(step), f"step {step} repeats a position"
        for pos in step:
            assert 0 <= pos < remaining, (
                f"step {step} references position {pos}, only {remaining} "
                "tensors exist"
            )
        remaining -= len(step) - 1
    assert remaining == 1, f"path leaves {remaining} tensors instead of 1"


def check_tree(tree, n):
    assert tree.N == n
    assert tree.is_complete(), "tree is not complete"
    assert len(tree.children) == n - 1
    check_linear_path(tree.get_path(), n)


def networks():
    nets = {}
    # 'b' is a hyper index on three tensors, every dimension is 2:
    # contracting ab with bc gives abc, size 8 == 4 + 4
    eq = "ab,bc,bd,de->ace"
    inputs, output = ctg.utils.eq_to_inputs_output(eq)
    nets[eq] = (inputs, output, {ix: 2 for ix in "abcde"})
    # a batch/output index shared by all but one tensor
    eq = "xa,xb,xc,cd->xabd"
    inputs, output = ctg.utils.eq_to_inputs_output(eq)
    nets[eq] = (inputs, output, {ix: 2 for ix in "xabcd"})
    # a matrix chain with sizes 4,2,4: a*c == b*(a + c)
    eq = "ab,bc,cd,de->ae"
    inputs, output = ctg.utils.eq_to_inputs_output(eq)
    nets[eq] = (inputs, output, {"a": 4, "b": 2, "c": 4, "d": 2, "e": 4})
    # ordinary network without such ties, as a control
    inputs, output, _, size_dict = ctg.utils.rand_equation(
        n=10, reg=3, n_out=2, d_min=3, d_max=3, seed=3
    )
    nets["rand-regular d=3"] = (inputs, output, size_dict)
    return nets


def finders():
    yield (
        "GreedyOptimizer(temperature=0.5) path",
        lambda i, o, s: check_linear_path(
            ctg.GreedyOptimizer(temperature=0.5, accel=False)(i, o, s), len(i)
        ),
    )
    yield (
        "GreedyOptimizer(temperature=0.5) tree",
        lambda i, o, s: check_tree(
            ctg.array_contract_tree(
                i, o, s, optimize=ctg.GreedyOptimizer(temperature=0.5, accel=False)
            ),
            len(i),
        ),
    )
    yield (
        "hyper method 'greedy' trial, temperature=0.3",
        lambda i, o, s: check_tree(trial_greedy(i, o, s, temperature=0.3), len(i)),
    )
    yield (
        "RandomGreedyOptimizer(costmod=1.0, temperature=0.1, seed=0)",
        lambda i, o, s: check_linear_path(
            ctg.RandomGreedyOptimizer(
                max_repeats=4,
                costmod=1.0,
                temperature=0.1,
                seed=0,
                accel=False,
                parallel=False,
            )(i, o, s),
            len(i),
        ),
    )


def main():
    problems = []
    for name, (inputs, output, size_dict) in networks().items():
        for what, fn in finders():
            try:
                fn(inputs, output, size_dict)
            except Exception as e:
                tb = traceback.extract_tb(e.__traceback__)[-1]
                problems.append(
                    f"{what} on {name!r}: {type(e).__name__}: {e} "
                    f"(at {tb.filename.split('/')[-1]}:{tb.lineno})"
                )

    if problems:
        print("C05 VIOLATED: no complete contraction was returned")
        for p in problems:
            print("  -", p)
        return 1
    print("ok: all greedy finders returned complete, well-formed contractions")
    return 0


if __name__ == "__main__":
    sys.exit(main())
