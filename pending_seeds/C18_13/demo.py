"""C18 demo: the lightweight processor (greedy / random-greedy) and the
contraction tree must derive the same legs and flops for every step, and
RandomGreedyOptimizer.best_flops must equal the cost of the tree built from
the path it returns -- here on networks containing a *traced* index (an index
repeated inside one tensor and appearing nowhere else)."""
import math
import sys

import cotengra as ctg
from cotengra.pathfinders.path_basic import (
    ContractionProcessor,
    RandomGreedyOptimizer,
    compute_flops,
    compute_contracted,
)

problems = []

cases = [
    # (inputs, output, size_dict)
    ([("a", "a", "b"), ("b", "c"), ("c", "d"), ("d", "e")], ("e",),
     {"a": 7, "b": 2, "c": 3, "d": 4, "e": 5}),
    ([("x", "b", "a", "a"), ("b", "c", "y"), ("c", "d", "x"), ("d", "y")], (),
     {"a": 5, "b": 2, "c": 3, "d": 2, "x": 3, "y": 2}),
    # control: diagonal (kept) and plainly reduced indices, no trace
    ([("a", "a", "b"), ("a", "b", "c"), ("c", "d", "k")], ("d",),
     {"a": 3, "b": 2, "c": 3, "d": 4, "k": 6}),
]

for inputs, output, size_dict in cases:
    # 1. step by step: processor legs / flops versus the tree
    cp = ContractionProcessor(inputs, output, size_dict, track_flops=True)
    cp.simplify()
    cp.optimize_greedy()
    cp.optimize_remaining_by_size()
    tree = ctg.ContractionTree.from_path(
        inputs, output, size_dict, ssa_path=cp.ssa_path
    )
    tree_flops = tree.contraction_cost()
    if cp.flops != tree_flops:
        problems.append(
            f"{inputs}->{output}: processor tracked flops {cp.flops} "
            f"!= tree flops {tree_flops}"
        )
    (final_legs,) = cp.nodes.values()
    inv = {v: k for k, v in cp.indmap.items()}
    final_inds = sorted(inv[ix] for ix, _ in final_legs)
    if final_inds != sorted(output):
        problems.append(
            f"{inputs}->{output}: processor ends with legs {final_inds}, "
            f"tree root has {sorted(tree.get_legs(tree.root))}"
        )

    # 2. reported cost of the random greedy optimizer
    opt = RandomGreedyOptimizer(
        max_repeats=4, seed=42, accel=False, parallel=False
    )
    t = opt.search(inputs, output, size_dict)
    want = math.log10(max(1, t.contraction_cost()))
    if abs(opt.best_flops - want) > 1e-9:
        problems.append(
            f"{inputs}->{output}: RandomGreedyOptimizer.best_flops="
            f"{opt.best_flops:.6f} but tree built from its path costs "
            f"log10(flops)={want:.6f}"
        )

if problems:
    print("C18 VIOLATED:")
    for p in problems:
        print("  -", p)
    sys.exit(1)
print("ok: processor and tree agree, reported flops match")
