"""C05 demo: the random-greedy pathfinder must return a complete, well-formed
contraction also for networks on which the up-front simplification does
something (repeated indices, indices to sum over on a single tensor, scalars,
tensors with identical indices)."""

import sys
import warnings

import cotengra as ctg
from cotengra.utils import eq_to_inputs_output


def check_linear_path(path, n):
    """Each step must pop distinct, existing positions, and exactly one tensor
    must be left at the end."""
    for step in path:
        step = tuple(step)
        if len(set(step)) != len(step):
            return f"step {step} uses a position twice"
        for pos in step:
            if not (0 <= pos < n):
                return f"step {step} refers to position {pos} of only {n}"
        n -= len(step) - 1
    if n != 1:
        return f"{n} tensors are left at the end instead of 1"
    return None


def check_tree(tree):
    if tree.N > 1 and not tree.is_complete():
        return "the tree is not complete"
    if len(tree.children) != tree.N - 1:
        return f"{len(tree.children)} contractions for {tree.N} tensors"
    leaves = sorted(i for p, l, r in tree.traverse() for c in (l, r)
                    if len(c) == 1 for i in c)
    if leaves != list(range(tree.N)):
        return "the inputs are not each consumed exactly once"
    return None


EQS = [
    # repeated (traced / diagonal) indices on several tensors
    "aab,bcc,cd,de,ef,fgg->",
    "aab,bc,cdd,de,eff,fg,ghh,hi->i",
    # indices that only appear on one tensor and are simply summed over
    "ax,by,ab,bc,cd,dz,de->e",
    # scalars and tensors with identical indices mixed into a chain
    ",ab,ab,bc,,cd,cd,de,ef->f",
    # disconnected pieces, one of them with a trace
    "ab,bc,cc,de,ef,fgg,hh->a",
    # perverse mixture with a hyper index
    "aab,bx,cx,dx,dee,ef,fgg->c",
]

failures = []
for eq in EQS:
    inputs, output = eq_to_inputs_output(eq)
    size_dict = {ix: 2 + (ord(ix) % 3) for term in inputs for ix in term}
    for seed in range(3):
        for how in ("path", "tree"):
            opt = ctg.RandomGreedyOptimizer(
                max_repeats=4, seed=seed, accel=False, parallel=False
            )
            try:
                with warnings.catch_warnings():
                    warnings.simplefilter("ignore")
                    if how == "path":
                        path = opt(inputs, output, size_dict)
                        err = check_linear_path(path, len(inputs))
                        shown = path
                    else:
                        tree = opt.search(inputs, output, size_dict)
                        err = check_tree(tree)
                        shown = opt.best_ssa_path
            except Exception as e:  # noqa
                err = f"raised {type(e).__name__}: {e}"
                shown = None
            if err:
                failures.append(
                    f"random-greedy ({how}, seed={seed}) on '{eq}': {err}"
                    + (f"  [{shown}]" if shown is not None else "")
                )

if failures:
    print(f"{len(failures)} malformed results from the random-greedy finder:")
    for f in failures[:12]:
        print("  -", f)
    sys.exit(1)

print("OK: random-greedy returned complete, well-formed contractions")
