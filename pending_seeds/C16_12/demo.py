"""C16 demo: sequential reuse of one ReusableHyperOptimizer(overwrite=True) that
has a slicing target.

  1. a hand-made tree for a tiny contraction T is put into the optimizer's
     cache with ``update_from_tree`` (T has only 8 index configurations, so the
     optimizer's own trials can never slice it 64 ways - every trial fails),
  2. a bigger contraction B is searched (works),
  3. T is asked for again; with ``overwrite`` on, the optimizer searches again.

Whatever the optimizer answers to query 3, a tree it hands out must be a tree
of T.  Refusing with an error is fine for this check, handing out the tree of
query 2 is not.  The same three steps are run for overwrite=True and for
overwrite='improved'.

exit 0: every tree handed out belongs to the contraction that was asked about
exit 1: the answer to query 3 is the tree of query 2
"""

import sys
import warnings

import cotengra as ctg

warnings.simplefilter("ignore")


def belongs(tree, inputs, output, size_dict):
    return (
        tree.N == len(inputs)
        and tuple(map(tuple, tree.inputs)) == tuple(map(tuple, inputs))
        and tuple(tree.output) == tuple(output)
        and all(tree.size_dict[ix] == size_dict[ix] for t in inputs for ix in t)
    )


# the tiny contraction: a triangle of 2x2 matrices
t_inputs = (("a", "b"), ("b", "c"), ("c", "a"))
t_output = ()
t_sizes = {"a": 2, "b": 2, "c": 2}

# the bigger one
b_inputs, b_output, _, b_sizes = ctg.utils.rand_equation(
    8, 3, n_out=1, seed=1, d_min=2, d_max=3
)


def run(overwrite):
    opt = ctg.ReusableHyperOptimizer(
        methods=["greedy"],
        optlib="random",
        seed=0,
        max_repeats=4,
        parallel=False,
        slicing_opts={"target_slices": 64},
        overwrite=overwrite,
        on_trial_error="ignore",
    )

    # 1. supply a manual tree for the tiny contraction
    manual = ctg.array_contract_tree(
        t_inputs, t_output, t_sizes, optimize="greedy", canonicalize=False
    )
    opt.update_from_tree(manual)

    # 2. search the bigger contraction
    tree_b = opt.search(b_inputs, b_output, b_sizes)
    if not belongs(tree_b, b_inputs, b_output, b_sizes):
        print(f"[overwrite={overwrite!r}] FAIL: query 2 got a foreign tree")
        return False
    if tree_b.multiplicity < 64:
        print("setup problem: the slicing target was not applied to query 2")
        sys.exit(2)

    # 3. ask for the tiny contraction again
    try:
        tree_t = opt.search(t_inputs, t_output, t_sizes)
    except Exception as e:  # noqa
        print(
            f"[overwrite={overwrite!r}] ok: query 3 was refused "
            f"({type(e).__name__}: {e}), no foreign tree was handed out"
        )
        return True

    if not belongs(tree_t, t_inputs, t_output, t_sizes):
        which = "query 2's tree" if tree_t is tree_b else "a foreign tree"
        print(
            f"[overwrite={overwrite!r}] FAIL: query 3 asked about a "
            f"contraction with {len(t_inputs)} inputs {t_inputs} but was "
            f"handed {which}: {tree_t.N} inputs, output {tuple(tree_t.output)}"
        )
        return False

    print(f"[overwrite={overwrite!r}] ok: query 3 got a tree of its own")
    return True


results = [run("improved"), run(True)]
sys.exit(0 if all(results) else 1)
