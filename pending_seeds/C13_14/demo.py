"""C13 demo: a sequence of high-level calls on ONE contraction that differ only
in the *value* of a non-boolean option (``implementation=`` given as a name or
as a pair of callables, ``via=`` given as different pairs of converters).
Every call is made once with the in-memory cache enabled and once with it
disabled; the two answers must agree.
"""

import sys

import numpy as np

import cotengra as ctg


def fail(msg):
    print("FAIL:", msg)
    sys.exit(1)


def same(x, y):
    if type(x) is not type(y):
        return False
    return np.array_equal(np.asarray(x), np.asarray(y))


def main():
    eq = "ab,bc,cd->da"
    rng = np.random.default_rng(3)
    shapes = [(3, 4), (4, 5), (5, 6)]
    arrays = [rng.normal(size=s) for s in shapes]
    ref = np.einsum(eq, *arrays)

    # ------------------------------------------------------------------ #
    # a user supplied (einsum, tensordot) pair (the order in which Contractor
    # unpacks it): works in single precision
    calls = []

    def td32(a, b, axes):
        calls.append("tensordot")
        a = np.asarray(a, dtype="float32")
        b = np.asarray(b, dtype="float32")
        return np.tensordot(a, b, axes)

    def es32(eq, *xs):
        calls.append("einsum")
        xs = [np.asarray(x, dtype="float32") for x in xs]
        return np.einsum(eq, *xs)

    # different `via` converters
    def ident(x):
        return x

    def to_list(x):
        return np.asarray(x).tolist()

    sequence = [
        ("implementation='cotengra'", dict(implementation="cotengra")),
        ("implementation=(es32, td32)", dict(implementation=(es32, td32))),
        ("implementation='autoray'", dict(implementation="autoray")),
        ("via=(ident, ident)", dict(via=(ident, ident))),
        ("via=(ident, to_list)", dict(via=(ident, to_list))),
    ]

    for name, opts in sequence:
        del calls[:]
        cached = ctg.einsum(eq, *arrays, optimize="greedy", **opts)
        n_cached = len(calls)
        del calls[:]
        uncached = ctg.einsum(
            eq, *arrays, optimize="greedy", cache_expression=False, **opts
        )
        n_uncached = len(calls)

        if not np.allclose(np.asarray(uncached), ref, rtol=1e-4, atol=1e-4):
            fail(f"{name}: uncached call is wrong")
        if not same(cached, uncached):
            fail(
                f"{name}: cached call returned {type(cached).__name__} "
                f"dtype={getattr(cached, 'dtype', None)}, uncached call "
                f"returned {type(uncached).__name__} "
                f"dtype={getattr(uncached, 'dtype', None)} (values equal: "
                f"{np.array_equal(np.asarray(cached), np.asarray(uncached))})"
            )
        if n_cached != n_uncached:
            fail(
                f"{name}: the supplied implementation was used {n_cached} "
                f"times with the cache and {n_uncached} times without"
            )

    # two contractions that differ in one option must not share an expression
    kws = dict(shapes=shapes, optimize="greedy")
    inputs, output = ctg.utils.eq_to_inputs_output(eq)
    e1 = ctg.array_contract_expression(
        inputs, output, implementation="cotengra", **kws
    )
    e2 = ctg.array_contract_expression(
        inputs, output, implementation=(es32, td32), **kws
    )
    if e1 is e2:
        fail("two different `implementation` values share one expression")

    print("OK")


if __name__ == "__main__":
    main()
