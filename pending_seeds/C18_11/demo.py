"""C18 demo: the light-weight ContractionProcessor (behind greedy / optimal /
random-greedy) must count the same flops, and derive the same indices, as the
ContractionTree for every step of the same contraction order, and the flops
the random-greedy optimizer reports must be the cost of the path it returns.

The networks have hyper indices (an index on three or more tensors, or on
several tensors and in the output), none of them is on all tensors.
"""

import math
import random
import sys

import cotengra as ctg
from cotengra.pathfinders.path_basic import (
    ContractionProcessor,
    optimize_greedy,
)


def network(seed):
    """A 3x3 lattice plus two hyper indices on three tensors each and an
    output index that sits on two tensors.
    """
    rng = random.Random(seed)
    inputs, output, _, size_dict = ctg.utils.lattice_equation(
        [3, 3], d_min=2, d_max=4, seed=seed
    )
    inputs = [list(term) for term in inputs]
    output = list(output)
    n = len(inputs)
    for h, where in (("H0", 3), ("H1", 3), ("X0", 2)):
        size_dict[h] = rng.randint(2, 4)
        for i in rng.sample(range(n), where):
            inputs[i].append(h)
    output.append("X0")
    inputs = tuple(map(tuple, inputs))

    # keep to what every simulator supports: no repeated index inside a
    # tensor, no index on all tensors, no index that would be summed at once
    counts = {}
    for term in inputs:
        assert len(set(term)) == len(term)
        for ix in term:
            counts[ix] = counts.get(ix, 0) + 1
    assert all(c < n for c in counts.values())
    assert all((c > 1) or (ix in output) for ix, c in counts.items())
    return inputs, tuple(output), size_dict


def check_steps(seed, inputs, output, size_dict):
    """Replay one contraction order in both simulators."""
    ssa_path = optimize_greedy(
        inputs, output, size_dict, simplify=False, use_ssa=True
    )
    tree = ctg.ContractionTree.from_path(
        inputs, output, size_dict, ssa_path=ssa_path
    )
    cp = ContractionProcessor(inputs, output, size_dict, track_flops=True)
    names = {v: k for k, v in cp.indmap.items()}
    nodes = {i: frozenset([i]) for i in range(len(inputs))}
    problems = []
    for step, (i, j) in enumerate(ssa_path):
        before = cp.flops
        k = cp.contract_nodes(i, j)
        p = nodes[k] = nodes[i] | nodes[j]
        got_flops = cp.flops - before
        got_legs = {names[ix]: c for ix, c in cp.nodes[k]}
        want_legs = dict(tree.get_legs(p))
        if len(p) == len(inputs):
            # the counts of the root's legs are not meaningful in the tree
            got_legs, want_legs = set(got_legs), set(want_legs)
        if got_legs != want_legs:
            problems.append(
                f"seed {seed} step {step} {(i, j)}: processor legs "
                f"{got_legs} != tree legs {want_legs}"
            )
        if got_flops != tree.get_flops(p):
            problems.append(
                f"seed {seed} step {step} {(i, j)}: processor flops "
                f"{got_flops} != tree flops {tree.get_flops(p)}"
            )
    return problems


def check_reported(seed, inputs, output, size_dict):
    opt = ctg.RandomGreedyOptimizer(
        max_repeats=4, seed=seed, accel=False, parallel=False
    )
    path = opt(inputs, output, size_dict)
    tree = ctg.ContractionTree.from_path(inputs, output, size_dict, path=path)
    actual = tree.contraction_cost(log=10)
    if not math.isclose(opt.best_flops, actual, rel_tol=1e-9):
        return [
            f"seed {seed}: random-greedy reports best_flops="
            f"{opt.best_flops:.4f} but its path costs {actual:.4f} (log10)"
        ]
    return []


def main():
    problems = []
    for seed in range(6):
        net = network(seed)
        problems += check_steps(seed, *net)
        problems += check_reported(seed, *net)
    if problems:
        print(f"{len(problems)} disagreements:")
        for msg in problems[:10]:
            print("  " + msg)
        return 1
    print("OK: processor and tree agree, reported flops are the path's")
    return 0


if __name__ == "__main__":
    sys.exit(main())
