"""C13 demo: the same contraction, asked for through the high-level interface
with an explicit ContractionTree as ``optimize``, first without and then with
``strip_exponent=True`` (and in the opposite order on a second tree).  Each
answer is compared with a reference computed by numpy and with the answer of an
identical call on a *fresh* tree (nothing cached anywhere).
"""

import sys

import numpy as np

import cotengra as ctg


def fail(msg):
    print("FAIL:", msg)
    sys.exit(1)


def as_value(res, what):
    """Turn the result of a strip_exponent=True call into a plain array."""
    if not (isinstance(res, tuple) and len(res) == 2):
        fail(
            f"{what}: strip_exponent=True should return (mantissa, exponent), "
            f"got {type(res).__name__}"
        )
    m, e = res
    return np.asarray(m) * 10.0 ** float(e)


def main():
    eq = "ab,bc,cd,de->ae"
    rng = np.random.default_rng(7)
    shapes = [(3, 4), (4, 5), (5, 6), (6, 2)]
    arrays = [rng.normal(size=s) for s in shapes]
    ref = np.einsum(eq, *arrays)

    inputs, output = ctg.utils.eq_to_inputs_output(eq)
    size_dict = ctg.utils.shapes_inputs_to_size_dict(shapes, inputs)

    def new_tree():
        return ctg.array_contract_tree(
            inputs, output, size_dict, optimize="greedy"
        )

    # ---- order 1: plain call first, then strip_exponent=True ------------ #
    tree = new_tree()
    for cache in (True, False):
        x = ctg.einsum(eq, *arrays, optimize=tree, cache_expression=cache)
        if isinstance(x, tuple):
            fail("plain einsum call returned a tuple")
        if not np.allclose(x, ref):
            fail("plain einsum call returned a wrong value")

        y = ctg.einsum(
            eq,
            *arrays,
            optimize=tree,
            strip_exponent=True,
            cache_expression=cache,
        )
        y_fresh = ctg.einsum(
            eq,
            *arrays,
            optimize=new_tree(),
            strip_exponent=True,
            cache_expression=cache,
        )
        vf = as_value(y_fresh, "fresh tree")
        vy = as_value(y, f"re-used tree (cache_expression={cache})")
        if not (np.allclose(vf, ref) and np.allclose(vy, ref)):
            fail("strip_exponent=True call returned a wrong value")

    # ---- order 2: strip_exponent=True first, then the plain call -------- #
    tree = new_tree()
    y = ctg.array_contract(
        arrays, inputs, output, optimize=tree, strip_exponent=True
    )
    if not np.allclose(as_value(y, "first call on second tree"), ref):
        fail("strip_exponent=True call returned a wrong value")
    expr = ctg.einsum_expression(eq, *shapes, optimize=tree)
    x = expr(*arrays)
    if isinstance(x, tuple):
        fail(
            "einsum_expression without strip_exponent returned a "
            "(mantissa, exponent) tuple after an earlier strip_exponent=True "
            "call with the same tree"
        )
    if not np.allclose(x, ref):
        fail("plain expression returned a wrong value")

    # ---- the tree's own contract() must also respect the option ---------- #
    tree = new_tree()
    if isinstance(tree.contract(arrays), tuple):
        fail("tree.contract returned a tuple")
    as_value(tree.contract(arrays, strip_exponent=True), "tree.contract")

    print("OK")


if __name__ == "__main__":
    main()
