"""C05 demo: the 'labels' hyper method must return a complete contraction
tree for every network (also disconnected ones with isolated tensors or
scalars) and every setting of its registered hyper-parameter space."""

import itertools
import sys
import warnings

import cotengra as ctg
from cotengra.hyperoptimizers.hyper import (
    _PATH_FNS,
    get_hyper_constants,
    get_hyper_space,
)


def check_tree(tree):
    if not tree.is_complete():
        return "the tree is not complete"
    if len(tree.children) != tree.N - 1:
        return f"{len(tree.children)} contractions for {tree.N} tensors"
    n = tree.N
    for step in tree.get_path():
        if len(set(step)) != len(step) or any(not 0 <= p < n for p in step):
            return f"path step {step} invalid with {n} tensors left"
        n -= len(step) - 1
    if n != 1:
        return f"{n} tensors left at the end"
    return None


def chain(n, start=0):
    # open chain of ``n`` matrices, closed by two vectors
    ix = [ctg.get_symbol(start + i) for i in range(n + 1)]
    return [(ix[0],)] + [(ix[i], ix[i + 1]) for i in range(n)] + [(ix[n],)]


NETWORKS = {
    # plain connected chain
    "chain14": (chain(12), ()),
    # the same chain plus a scalar and a lone vector that is an output
    "chain14 + scalar + vector": (chain(12) + [(), ("Z",)], ("Z",)),
    # two chains plus three unconnected scalars
    "2 chains + 3 scalars": (chain(5) + chain(5, 20) + [(), (), ()], ()),
}

space = get_hyper_space()["labels"]
consts = get_hyper_constants()["labels"]
mem = space["memory"]
memories = range(mem["min"], mem["max"] + 1)

failures = []
ntrials = 0
for (name, (inputs, output)), memory, final_sweep, parts in itertools.product(
    NETWORKS.items(), memories, (False, True), (2, 5)
):
    inputs = tuple(map(tuple, inputs))
    size_dict = {ix: 2 for term in inputs for ix in term}
    params = dict(
        random_strength=0.05,
        weight_edges="log",
        cutoff=10,
        parts=parts,
        memory=memory,
        pop_small_bias=1.0,
        pop_big_bias=1.0,
        pop_decay=1.0,
        con_pow=1.0,
        final_sweep=final_sweep,
    )
    assert set(params) == set(space)
    ntrials += 1
    try:
        with warnings.catch_warnings():
            warnings.simplefilter("ignore")
            tree = _PATH_FNS["labels"](
                inputs, tuple(output), size_dict, seed=7, **params, **consts
            )
        err = check_tree(tree)
    except Exception as e:  # noqa
        err = f"raised {type(e).__name__}: {e}"
    if err:
        failures.append(
            f"labels on '{name}' (memory={memory}, parts={parts}, "
            f"final_sweep={final_sweep}): {err}"
        )

if failures:
    print(f"{len(failures)} of {ntrials} 'labels' trials gave no valid tree:")
    for f in failures[:10]:
        print("  -", f)
    sys.exit(1)

print(f"OK: all {ntrials} 'labels' trials returned complete trees")
