"""C05 demo: the 'random-greedy' preset must return a complete, well-formed
contraction path for *every* network it is asked about, also when it has been
asked about another (cheaper) network before in the same process.
"""
import sys
import warnings

import cotengra as ctg

warnings.simplefilter("ignore")


def check_linear_path(path, n, what):
    """Each step may only reference positions that exist, and the path has to
    end in a single tensor."""
    remaining = n
    for step in path:
        step = tuple(step)
        if len(set(step)) != len(step):
            return f"{what}: step {step} repeats a position"
        for pos in step:
            if not (0 <= pos < remaining):
                return (
                    f"{what}: step {step} references position {pos} but only "
                    f"{remaining} tensors exist at that step (path={path})"
                )
        remaining -= len(step) - 1
    if remaining != 1:
        return (
            f"{what}: path {list(map(tuple, path))} leaves {remaining} "
            f"tensors instead of 1 for a {n}-tensor network"
        )
    return None


def chain(n, d):
    # open matrix chain: a0a1, a1a2, ... -> a0 an
    inds = [ctg.utils.get_symbol(i) for i in range(n + 1)]
    inputs = [(inds[i], inds[i + 1]) for i in range(n)]
    output = (inds[0], inds[n])
    size_dict = {ix: d for ix in inds}
    return inputs, output, size_dict


def main():
    problems = []

    small = chain(3, 2)
    big = chain(7, 3)
    # a smaller but more expensive network as well (fewer tensors than `big`)
    mid = chain(5, 9)

    # 1. through the public preset name
    for name, (inputs, output, size_dict) in [
        ("small", small),
        ("big", big),
        ("mid", mid),
    ]:
        path = ctg.array_contract_path(
            inputs, output, size_dict, optimize="random-greedy", cache=False
        )
        err = check_linear_path(path, len(inputs), f"preset, {name} network")
        if err:
            problems.append(err)

    # 2. the function behind the preset, with explicit (seeded) options
    for name, (inputs, output, size_dict) in [
        ("small", small),
        ("big", big),
        ("mid", mid),
    ]:
        path = ctg.random_greedy_optimize(
            inputs, output, size_dict, seed=7, max_repeats=8
        )
        err = check_linear_path(path, len(inputs), f"seeded, {name} network")
        if err:
            problems.append(err)

    # 3. the sibling preset with more repeats
    inputs, output, size_dict = big
    path = ctg.array_contract_path(
        inputs, output, size_dict, optimize="random-greedy-128", cache=False
    )
    err = check_linear_path(path, len(inputs), "preset-128, big network")
    if err:
        problems.append(err)

    if problems:
        print("C05 VIOLATED: random-greedy returned a malformed path")
        for p in problems:
            print("  -", p)
        return 1

    print("ok: random-greedy paths complete and well formed for all networks")
    return 0


if __name__ == "__main__":
    sys.exit(main())
