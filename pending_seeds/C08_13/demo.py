"""C08 demo: a failed trial must be skipped without affecting the others.

A hyper-optimizer with the `skopt` backend and a training budget
(`max_training_steps`) searches with two methods, one of which fails for part
of its parameter range.  The search must complete, run exactly the requested
number of trials, and return the best of the successful ones.
"""

import sys
import warnings

warnings.filterwarnings("ignore")

import cotengra as ctg
from cotengra.core import ContractionTree, jitter_dict
from cotengra.hyperoptimizers.hyper import register_hyper_function
from cotengra.pathfinders.path_greedy import ssa_greedy_optimize


def trial_flaky(inputs, output, size_dict, seed=0, p=0.0):
    if p > 0.5:
        raise RuntimeError("flaky method: unsupported parameter range")
    jd = jitter_dict(size_dict, 0.5, int(seed))
    ssa_path = ssa_greedy_optimize(inputs, output, jd)
    return ContractionTree.from_path(
        inputs, output, size_dict, ssa_path=ssa_path
    )


def trial_steady(inputs, output, size_dict, seed=0):
    jd = jitter_dict(size_dict, 0.5, int(seed))
    ssa_path = ssa_greedy_optimize(inputs, output, jd)
    return ContractionTree.from_path(
        inputs, output, size_dict, ssa_path=ssa_path
    )


register_hyper_function(
    "demo-flaky",
    trial_flaky,
    space={
        "seed": {"type": "INT", "min": 0, "max": 10**6},
        "p": {"type": "FLOAT", "min": 0.0, "max": 1.0},
    },
)
register_hyper_function(
    "demo-steady",
    trial_steady,
    space={"seed": {"type": "INT", "min": 0, "max": 10**6}},
)


def main():
    inputs, output, _, size_dict = ctg.utils.rand_equation(
        30, 4, seed=7, d_min=2, d_max=4
    )
    inputs = tuple(map(tuple, inputs))
    output = tuple(output)

    max_repeats = 40
    opt = ctg.HyperOptimizer(
        methods=["demo-steady", "demo-flaky"],
        optlib="skopt",
        max_repeats=max_repeats,
        max_training_steps=100,
        on_trial_error="ignore",
        parallel=False,
        sampler_opts={"random_state": 0},
        method_sampler_opts={"random_state": 1},
    )

    try:
        tree = opt.search(inputs, output, size_dict)
    except Exception as e:
        nfail = sum(s == float("inf") for s in opt.scores)
        print(
            f"FAIL: the search was aborted after {len(opt.scores)} of "
            f"{max_repeats} trials ({nfail} of them failed trials) by "
            f"{type(e).__name__}: {e}"
        )
        return 1

    nfail = sum(s == float("inf") for s in opt.scores)
    print(f"trials run: {len(opt.scores)}, failed: {nfail}")

    if nfail == 0:
        print("FAIL (demo problem): no trial failed, nothing demonstrated")
        return 2
    if len(opt.scores) != max_repeats:
        print(f"FAIL: ran {len(opt.scores)} trials, requested {max_repeats}")
        return 1
    if not tree.is_complete():
        print("FAIL: returned tree is not complete")
        return 1
    if opt.best["score"] != min(opt.scores):
        print("FAIL: best score is not the minimum of the recorded scores")
        return 1
    i = opt.scores.index(min(opt.scores))
    stats = tree.contract_stats(force=True)
    rec = (opt.costs_flops[i], opt.costs_write[i], opt.costs_size[i])
    if rec != (stats["flops"], stats["write"], stats["size"]):
        print(f"FAIL: recorded costs {rec} != tree costs {stats}")
        return 1

    print("OK")
    return 0


if __name__ == "__main__":
    sys.exit(main())
