"""C12: numpy.einsum ignores *all* whitespace in the subscripts string, also
whitespace inside a term (e.g. between an ellipsis and its letters, or between
letters).  cotengra.einsum must do the same."""
import sys
import numpy as np
import cotengra as ctg

rng = np.random.default_rng(7)
cases = [
    # common style, spaces only around ',' and '->'
    ("ab, bc -> ac", [(2, 3), (3, 4)]),
    (" ab,bc ", [(2, 3), (3, 4)]),
    # spaces inside the terms
    ("i j, j k -> i k", [(2, 3), (3, 4)]),
    ("... a b, ... b c -> ... a c", [(5, 2, 3), (5, 3, 4)]),
    ("a b c -> c a", [(2, 3, 4)]),
    ("b a, a c", [(3, 2), (2, 4)]),
]
bad = []
for eq, shapes in cases:
    arrays = [rng.normal(size=s) for s in shapes]
    expected = np.einsum(eq, *arrays)
    try:
        got = ctg.einsum(eq, *arrays)
    except Exception as e:  # noqa
        bad.append(f"{eq!r}: raised {type(e).__name__}: {e}")
        continue
    if np.shape(got) != expected.shape or not np.allclose(got, expected):
        bad.append(
            f"{eq!r}: shape {np.shape(got)} vs numpy {expected.shape}, "
            "values differ"
        )
if bad:
    print("FAIL: cotengra.einsum disagrees with numpy.einsum on equations "
          "containing whitespace:")
    for b in bad:
        print("  ", b)
    sys.exit(1)
print("OK")
