"""C12: array_contract accepts arbitrary hashable index labels and must give
the value of the equivalent einsum -- whichever of the optional ``output`` /
``size_dict`` arguments are supplied along with the labels."""
import sys
import numpy as np
import cotengra as ctg

rng = np.random.default_rng(11)


def check(name, inputs, output, eq, shapes, bad, implicit_ok=True):
    arrays = [rng.normal(size=s) for s in shapes]
    expected = np.einsum(eq, *arrays)
    size_dict = {
        ix: d for term, s in zip(inputs, shapes) for ix, d in zip(term, s)
    }
    variants = {
        "output only": dict(output=output),
        "implicit output + size_dict": dict(size_dict=size_dict),
        "output + size_dict": dict(output=output, size_dict=size_dict),
    }
    if not implicit_ok:
        # the documented implicit output (indices appearing once, in order of
        # first appearance) is not the output wanted here
        del variants["implicit output + size_dict"]
    for vname, kw in variants.items():
        try:
            got = ctg.array_contract(arrays, inputs, **kw)
        except Exception as e:  # noqa
            bad.append(f"{name} [{vname}]: raised {type(e).__name__}: {e}")
            continue
        if np.shape(got) != expected.shape or not np.allclose(got, expected):
            bad.append(
                f"{name} [{vname}]: got shape {np.shape(got)}, einsum "
                f"{eq!r} gives shape {expected.shape}; values differ"
            )


bad = []
# single character labels
check("chars", [("x", "y"), ("y", "z"), ("z", "w")], ("x", "w"),
      "ab,bc,cd->ad", [(2, 3), (3, 4), (4, 5)], bad)
# integer labels
check("ints", [(10, 20), (20, 30), (30, 40)], (10, 40),
      "ab,bc,cd->ad", [(2, 3), (3, 4), (4, 5)], bad)
# tuple labels
check("tuples", [(("k", 0), ("k", 1)), (("k", 1), ("k", 2))],
      (("k", 0), ("k", 2)), "ab,bc->ac", [(2, 3), (3, 4)], bad)
# multi character string labels (e.g. quimb style 'k0', 'b1')
check("words", [("k0", "b01"), ("b01", "k1", "b12"), ("b12", "k2")],
      ("k0", "k1", "k2"), "ab,bcd,de->ace", [(2, 3), (3, 4, 5), (5, 2)], bad)
check("words-single", [("left", "right", "left")], ("right",),
      "aba->b", [(3, 4, 3)], bad)
check("words-batch", [("n0", "n1"), ("n0", "n2"), ("n0",)], ("n0", "n2"),
      "ab,ac,a->ac", [(3, 2), (3, 4), (3,)], bad, implicit_ok=False)

if bad:
    print("FAIL: array_contract with hashable labels disagrees with the "
          "equivalent numpy.einsum:")
    for b in bad:
        print("  ", b)
    sys.exit(1)
print("OK")
