"""C11 demo: cotengra.contract.tensordot must agree with numpy.tensordot for
every axes specification - here the *integer* form ``axes=n`` (contract the
last n axes of ``a`` with the first n axes of ``b``, pairwise in order), next
to the equivalent explicit pair-of-sequences form.
"""
import itertools
import sys

import numpy as np
import cotengra  # noqa: F401

cc = sys.modules["cotengra.contract"]

rng = np.random.default_rng(11)
SIZES = (1, 2, 3)

ncase = 0
bad = []
for nd_a, nd_b in itertools.product(range(0, 4), repeat=2):
    for n in range(0, min(nd_a, nd_b) + 1):
        # a = free_a + con, b = con + free_b
        nfa, nfb = nd_a - n, nd_b - n
        for dims in itertools.product(SIZES, repeat=nfa + n + nfb):
            fa, con, fb = dims[:nfa], dims[nfa : nfa + n], dims[nfa + n :]
            a = rng.integers(-4, 5, size=fa + con).astype(float)
            b = rng.integers(-4, 5, size=con + fb).astype(float)
            expected = np.tensordot(a, b, n)
            explicit = (
                tuple(range(nd_a - n, nd_a)),
                tuple(range(n)),
            )
            for axes in (n, explicit):
                ncase += 1
                try:
                    got = np.asarray(cc.tensordot(a, b, axes))
                except Exception as e:  # noqa: BLE001
                    bad.append(
                        (a.shape, b.shape, axes, f"raised {type(e).__name__}: {e}")
                    )
                    continue
                if got.shape != expected.shape:
                    bad.append(
                        (a.shape, b.shape, axes,
                         f"shape {got.shape} != {expected.shape}")
                    )
                elif not np.allclose(got, expected):
                    bad.append(
                        (a.shape, b.shape, axes, "same shape but wrong values")
                    )

print(f"checked {ncase} tensordot cases, {len(bad)} disagree")
if bad:
    silent = [x for x in bad if x[3].startswith("same shape")]
    for sa, sb, axes, msg in (silent[:4] + bad[:4]):
        print(f"  tensordot(a{sa}, b{sb}, axes={axes}): {msg}")
    print(f"  ({len(silent)} of them silently return wrong values)")
    print("FAIL: cotengra.contract.tensordot disagrees with numpy.tensordot")
    sys.exit(1)
print("OK")
