"""C17 demo: RandomOptimizer(seed=s) must give the same path for the same
integer seed, whatever the state of the global random generator.

For a handful of integer seeds the optimizer is built twice, with the global
generator perturbed in between, and both the raw path and the tree built by
``search`` are compared.
"""

import random
import sys

import cotengra as ctg

con = ctg.utils.rand_equation(12, 3, n_out=2, seed=11)
args = (con.inputs, con.output, con.size_dict)

bad = []
for seed in (5, 4, 3, 2, 1, 0, 2**32, 12345678901234567890):
    random.seed(100)
    opt_a = ctg.pathfinders.path_random.RandomOptimizer(seed=seed)
    path_a = opt_a(*args)
    tree_a = ctg.pathfinders.path_random.RandomOptimizer(seed=seed).search(*args)

    # perturb the global generator, then repeat with identical arguments
    random.seed(200)
    random.random()
    opt_b = ctg.pathfinders.path_random.RandomOptimizer(seed=seed)
    path_b = opt_b(*args)
    tree_b = ctg.pathfinders.path_random.RandomOptimizer(seed=seed).search(*args)

    if path_a != path_b:
        bad.append(seed)
        print(f"MISMATCH seed={seed}: path {path_a[:4]}... vs {path_b[:4]}...")
    elif tree_a.get_path() != tree_b.get_path():
        bad.append(seed)
        print(f"MISMATCH seed={seed}: search() trees differ")

if bad:
    print(
        f"FAIL: RandomOptimizer not a function of its integer seed for "
        f"seed(s) {bad} - result follows the global random generator"
    )
    sys.exit(1)
print("OK: RandomOptimizer reproducible for all tested integer seeds")
