"""C07 demo: indices the slice finder was forbidden to touch are never chosen.

With ``allow_outer=False`` no output index may be returned, with
``allow_outer='only'`` nothing but output indices may be returned.  The
networks here contain bonds of dimension 1 and the search runs at a high
temperature, so that every allowed candidate gets picked now and then.

Exits 0 if the restriction is always respected, 1 (with a message) otherwise.
"""

import sys

import cotengra as ctg
from cotengra.slicer import SliceFinder


def main():
    problems = []
    nchecked = 0

    for net_seed in range(40):
        tree = ctg.utils.rand_tree(
            10, 3, n_out=3, d_min=1, d_max=3, seed=net_seed
        )
        outer = set(tree.output)

        for allow_outer in (False, "only"):
            for target in ({"target_slices": 2}, {"target_slices": 4}):
                for seed in range(4):
                    sf = SliceFinder(
                        tree,
                        allow_outer=allow_outer,
                        temperature=2.0,
                        seed=seed,
                        **target,
                    )
                    try:
                        ix_sl, cost = sf.search(4)
                    except (RuntimeError, ValueError, KeyError):
                        # target not reachable with the allowed indices
                        continue
                    nchecked += 1

                    if allow_outer == "only":
                        bad = set(ix_sl) - outer
                        what = "inner"
                    else:
                        bad = set(ix_sl) & outer
                        what = "output"

                    if bad:
                        dims = {ix: tree.size_dict[ix] for ix in sorted(bad)}
                        problems.append(
                            f"network seed={net_seed} output={sorted(outer)} "
                            f"allow_outer={allow_outer!r} {target} "
                            f"seed={seed}: search returned "
                            f"{sorted(ix_sl)} which contains the forbidden "
                            f"{what} indices {dims} (index: size)"
                        )

                    # and the prediction must still be real
                    real = tree.copy()
                    for ix in ix_sl:
                        real.remove_ind_(ix)
                    pred = (cost.size, cost.total_flops, cost.nslices)
                    actual = (
                        real.max_size(),
                        real.contraction_cost(),
                        real.nslices,
                    )
                    if pred != actual:
                        problems.append(
                            f"network seed={net_seed}: predicted {pred} but "
                            f"sliced tree has {actual}"
                        )

    if problems:
        print(
            f"FAIL: {len(problems)} of {nchecked} searches broke the "
            "allow_outer restriction, e.g."
        )
        for p in problems[:4]:
            print("  -", p)
        return 1

    print(f"OK: {nchecked} searches, forbidden indices never chosen")
    return 0


if __name__ == "__main__":
    sys.exit(main())
