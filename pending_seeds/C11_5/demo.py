"""C11 demo: one-operand einsum of cotengra.contract must agree with numpy.

Checks every one-operand equation 'lhs->out' with lhs over distinct symbols of
rank <= 4 and out any permutation of (a subset of) them, for shapes with all
sizes equal (silent wrong values) and all sizes different (wrong shape).
"""
import itertools
import sys

import numpy as np

from cotengra.contract import einsum

rng = np.random.default_rng(0)
failures = []
ncheck = 0
for rank in range(0, 5):
    lhs = "abcd"[:rank]
    for k in range(rank + 1):
        for out in itertools.permutations(lhs, k):
            out = "".join(out)
            eq = f"{lhs}->{out}"
            for shp in ((3,) * rank, (2, 3, 1, 4)[:rank], (1, 2, 3, 2)[:rank]):
                x = rng.normal(size=shp)
                ref = np.einsum(eq, x)
                ncheck += 1
                try:
                    got = np.asarray(einsum(eq, x))
                except Exception as e:  # noqa
                    failures.append((eq, shp, f"raised {type(e).__name__}: {e}"))
                    continue
                if got.shape != ref.shape:
                    failures.append(
                        (eq, shp, f"shape {got.shape}, expected {ref.shape}")
                    )
                elif not np.allclose(got, ref):
                    failures.append(
                        (eq, shp, "same shape but wrong values (silent)")
                    )

print(f"checked {ncheck} one-operand cases, {len(failures)} disagree")
for eq, shp, msg in failures[:8]:
    print(f"  einsum({eq!r}, x) with x.shape={shp}: {msg}")
if failures:
    print("FAIL: cotengra.contract.einsum disagrees with numpy.einsum")
    sys.exit(1)
print("OK")
