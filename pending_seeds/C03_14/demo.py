"""C03 demo 14: the arrays really produced while contracting -- step by step,
in the requested traversal order -- must have the sizes the tree reports for
the same steps, and the measured peak of live memory must equal
``tree.peak_size(order)``, for sliced trees as well as unsliced ones."""

import sys

import numpy as np

import cotengra as ctg


class Recorder:
    """An (einsum, tensordot) pair handed to ``tree.contract`` that records the
    size of every array produced by a pairwise step and tracks the number of
    live elements (both inputs of a step are freed once its output exists)."""

    def __init__(self, nsteps, start_live):
        self.nsteps = nsteps
        self.start_live = start_live
        self.slices = []  # per slice: (sizes produced, measured peak)
        self._begin()

    def _begin(self):
        self.produced = []
        self.live = self.peak = self.start_live

    def _step(self, a, b, out):
        self.produced.append(int(out.size))
        self.live += int(out.size)
        self.peak = max(self.peak, self.live)
        self.live -= int(a.size) + int(b.size)
        if len(self.produced) == self.nsteps:
            self.slices.append((self.produced, self.peak))
            self._begin()

    def tensordot(self, a, b, axes):
        out = np.tensordot(a, b, axes)
        self._step(a, b, out)
        return out

    def einsum(self, eq, *arrays):
        out = np.einsum(eq, *arrays)
        if len(arrays) == 2:
            self._step(*arrays, out)
        else:
            # single term preprocessing of an input, before the first step
            self.live += int(out.size) - int(arrays[0].size)
            self.peak = max(self.peak, self.live)
        return out


def by_extent(node):
    # smallest intermediates first: interleaves the branches of the tree
    return len(node)


def check(name, tree, arrays, order, problems):
    expected = [tree.get_size(p) for p, _, _ in tree.traverse(order)]
    reported_peak = tree.peak_size(order=order)

    start = sum(int(x.size) for x in tree.slice_arrays(arrays, 0))
    rec = Recorder(tree.N - 1, start)
    tree.contract(
        arrays, order=order, implementation=(rec.einsum, rec.tensordot)
    )

    if len(rec.slices) != tree.nslices:
        problems.append(
            f"{name}: executed {len(rec.slices)} slices, tree says "
            f"{tree.nslices}"
        )
        return
    for s, (produced, peak) in enumerate(rec.slices):
        if produced != expected:
            problems.append(
                f"{name}: slice {s} produced arrays of sizes {produced}, the "
                f"tree reports {expected} for the same steps"
            )
            return
        # a preprocessed input is counted with its reduced size by the tree,
        # so only compare peaks when no input needs preprocessing
        if not tree.preprocessing and peak != reported_peak:
            problems.append(
                f"{name}: slice {s} measured peak {peak}, tree reports "
                f"peak_size={reported_peak}"
            )
            return


def main():
    problems = []
    ndifferent = 0
    for seed in range(8):
        tree = ctg.utils.rand_tree(
            10, 3, n_out=1, n_hyper_in=1, d_min=2, d_max=3, seed=seed
        )
        arrays = ctg.utils.make_arrays_from_inputs(
            tree.inputs, tree.size_dict, seed=seed
        )
        biggest = max(tree.children, key=tree.get_size)
        ix = sorted(tree.get_legs(biggest))[0]
        sliced = tree.remove_ind(ix)

        dfs = [p for p, _, _ in tree.traverse()]
        ext = [p for p, _, _ in tree.traverse(by_extent)]
        ndifferent += dfs != ext

        for oname, order in (("default", None), ("by_extent", by_extent)):
            check(f"seed {seed} unsliced order={oname}", tree, arrays,
                  order, problems)
            check(f"seed {seed} sliced({ix}) order={oname}", sliced, arrays,
                  order, problems)

    if ndifferent == 0:
        print("demo is vacuous: the custom order never differs from dfs")
        return 2
    if problems:
        print("FAIL: execution does not match what the tree reports:")
        for p in problems[:6]:
            print("  ", p)
        print(f"  ({len(problems)} mismatches in total)")
        return 1
    print("OK: produced arrays and measured peaks match the tree's report "
          f"({ndifferent} trees where the custom order differs from dfs)")
    return 0


if __name__ == "__main__":
    sys.exit(main())
