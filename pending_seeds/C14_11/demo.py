"""C14 demo: with overwrite='improved' and an on-disk cache, an improvement
found by a later search must be what a fresh optimizer / fresh process finds
in the directory afterwards."""
import atexit
import os
import random
import shutil
import subprocess
import sys
import tempfile

import cotengra as ctg

random.seed(0)

inputs, output, _, size_dict = ctg.utils.rand_equation(
    30, 3, 2, 2, 2, seed=7
)
directory = tempfile.mkdtemp(prefix="c14_11_")
atexit.register(shutil.rmtree, directory, ignore_errors=True)
common = dict(
    methods=["greedy"],
    max_repeats=4,
    optlib="random",
    seed=0,
    parallel=False,
    directory=directory,
)

# step 1: somebody stores a (deliberately poor) tree for the contraction:
# contract the tensors one after the other
n = len(inputs)
poor = ctg.ContractionTree.from_path(
    inputs, output, size_dict, path=[(0, 1)] * (n - 1)
)
opt1 = ctg.ReusableHyperOptimizer(**common)
opt1.update_from_tree(poor)
s_poor = poor.get_score()

# step 2: a later session re-searches with overwrite='improved'
opt2 = ctg.ReusableHyperOptimizer(overwrite="improved", **common)
t2 = opt2.search(inputs, output, size_dict)
s2 = t2.get_score()
if not s2 < s_poor:
    print("precondition failed: the search did not improve on the poor tree")
    sys.exit(0)
# what the improving optimizer itself now reports from its cache
h, missing = opt2.hash_query(inputs, output, size_dict)
s2_cached = opt2._cache[h]["score"]

# step 3: a new optimizer on the same directory only reads the cache
opt3 = ctg.ReusableHyperOptimizer(cache_only=True, **common)
t3 = opt3.search(inputs, output, size_dict)
s3 = t3.get_score()

# step 4: same thing from a really fresh process
code = (
    "import cotengra as ctg, pickle, sys\n"
    "inputs, output, _, size_dict = ctg.utils.rand_equation("
    "30, 3, 2, 2, 2, seed=7)\n"
    "opt = ctg.ReusableHyperOptimizer(cache_only=True, methods=['greedy'], "
    f"optlib='random', seed=0, parallel=False, directory={directory!r})\n"
    "t = opt.search(inputs, output, size_dict)\n"
    "print(repr(t.get_score()))\n"
    "print(repr(t.get_path()))\n"
)
out = subprocess.run(
    [sys.executable, "-c", code],
    capture_output=True,
    text=True,
    env=dict(os.environ),
    check=True,
).stdout.strip().splitlines()
s4 = float(out[-2])
p4 = eval(out[-1])

print(f"poor={s_poor:.4f} improved={s2:.4f} cached={s2_cached:.4f} "
      f"reread={s3:.4f} fresh-process={s4:.4f}")

bad = []
if abs(s2_cached - s2) > 1e-9:
    bad.append("the improving optimizer does not hold the improved score")
if abs(s3 - s2) > 1e-9:
    bad.append(
        f"a new optimizer on the same directory gets score {s3:.4f}, but the "
        f"improved entry that was stored has score {s2:.4f}"
    )
if abs(s4 - s2) > 1e-9 or tuple(p4) != tuple(t2.get_path()):
    bad.append(
        f"a fresh process gets score {s4:.4f} / another contraction order "
        f"than the improved tree returned before ({s2:.4f})"
    )
if bad:
    print("FAIL: improvement found with overwrite='improved' never reached "
          "the disk:")
    for b in bad:
        print("  -", b)
    sys.exit(1)
print("OK")
