"""C15 demo: two threads of one process share a reusable optimizer with an
on-disk cache and store a result for the same contraction at overlapping
times; the process is killed while the slower thread is still half way through
writing.  A later process pointed at the same directory must find a complete
entry (either thread's) or none at all.

exit 0: property holds,  exit 1: property violated
"""

import os
import pickle
import shutil
import subprocess
import sys
import tempfile
import textwrap

import cotengra as ctg

WRITER = textwrap.dedent(
    r"""
    import os, pickle, sys, threading
    import cotengra as ctg
    import cotengra.utils as U

    d = sys.argv[1]
    inputs, output, shapes, size_dict = ctg.utils.lattice_equation([4, 5], seed=7)
    n = len(inputs)
    tree_a = ctg.array_contract_tree(inputs, output, size_dict, optimize="greedy")
    tree_b = ctg.ContractionTree.from_path(
        inputs, output, size_dict, path=[(0, 1)] * (n - 1)
    )

    # one optimizer object, used from two threads (it keeps per-thread state
    # for exactly this purpose)
    opt = ctg.ReusableHyperOptimizer(directory=d, methods=["greedy"], max_repeats=2)

    main = threading.get_ident()
    state = {"armed": True}

    class SlowPickle:
        # the main thread's dump is split into three write() calls, and the
        # thread is descheduled after the first / killed after the second
        UnpicklingError = pickle.UnpicklingError
        load = staticmethod(pickle.load)

        @staticmethod
        def dump(v, f):
            if threading.get_ident() != main or not state["armed"]:
                return pickle.dump(v, f)
            state["armed"] = False
            data = pickle.dumps(v)
            c = len(data) // 3
            f.write(data[:c]); f.flush()
            # ... meanwhile the other thread stores its own result, completely
            t = threading.Thread(
                target=opt.update_from_tree, args=(tree_a,), kwargs={"overwrite": True}
            )
            t.start(); t.join()
            f.write(data[c:2 * c]); f.flush()
            os._exit(9)   # the process is killed here

    U.pickle = SlowPickle
    opt.update_from_tree(tree_b, overwrite=True)
    """
)


def main():
    d = tempfile.mkdtemp(prefix="c15_11_")
    env = dict(os.environ)
    r = subprocess.run([sys.executable, "-c", WRITER, d], env=env)
    if r.returncode != 9:
        print("writer did not die at the intended point, rc =", r.returncode)
        return 2

    inputs, output, shapes, size_dict = ctg.utils.lattice_equation(
        [4, 5], seed=7
    )
    n = len(inputs)
    tree_a = ctg.array_contract_tree(
        inputs, output, size_dict, optimize="greedy"
    )
    tree_b = ctg.ContractionTree.from_path(
        inputs, output, size_dict, path=[(0, 1)] * (n - 1)
    )
    complete = [tuple(tree_a.get_path()), tuple(tree_b.get_path())]

    # ---- the later process ----
    opt = ctg.ReusableHyperOptimizer(
        directory=d, methods=["greedy"], max_repeats=2
    )
    h, missing = opt.hash_query(inputs, output, size_dict)
    print("entry present for later process:", not missing)
    try:
        tree = opt.search(inputs, output, size_dict)
    except Exception as e:
        print(
            "VIOLATION: later process fails on the contraction: "
            f"{type(e).__name__}: {e}"
        )
        return 1

    if not missing:
        got = tuple(tree.get_path())
        if got not in complete:
            print(
                "VIOLATION: later process got a tree built from an entry that "
                "neither writer thread stored (mixture of two writes)"
            )
            return 1
        # and what is on disk is exactly one of the complete entries
        fname = opt._cache._path.joinpath(*h)
        with open(fname, "rb") as f:
            con = pickle.load(f)
        if tuple(con["path"]) not in complete:
            print("VIOLATION: entry on disk is not a complete stored entry")
            return 1
    print("ok: complete entry or absent; tree contracts", tree.N, "tensors")
    return 0


if __name__ == "__main__":
    try:
        rc = main()
    finally:
        for p in os.listdir(tempfile.gettempdir()):
            if p.startswith("c15_11_"):
                shutil.rmtree(
                    os.path.join(tempfile.gettempdir(), p), ignore_errors=True
                )
    sys.exit(rc)
