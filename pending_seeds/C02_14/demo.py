"""C02 demo 14: slicing / projecting output indices must not change the
shape (declared output order) or value of what the tree contracts to.

The network has an output index of dimension 1 ('x'). Exits 0 when every
contraction matches ``numpy.einsum`` (value AND shape), 1 otherwise.
"""
import sys

import numpy as np

import cotengra as ctg


def main():
    failures = []

    eq = "abx,bcy,cdz,da->xyz"
    inputs, output = ctg.utils.eq_to_inputs_output(eq)
    size_dict = {"a": 2, "b": 3, "c": 2, "d": 3, "x": 1, "y": 3, "z": 2}
    rng = np.random.default_rng(0)
    arrays = [
        rng.uniform(0.5, 1.5, size=[size_dict[ix] for ix in term])
        for term in inputs
    ]
    full = np.einsum(eq, *arrays)
    assert full.shape == (1, 3, 2)

    def new_tree():
        tree = ctg.ContractionTree(inputs, output, size_dict)
        tree.contract_nodes(tuple(tree.gen_leaves()), optimize="greedy")
        return tree

    def check(label, tree, expected):
        try:
            got = tree.contract(arrays)
        except Exception as e:  # noqa
            failures.append(f"{label}: contract raised {type(e).__name__}: {e}")
            return
        if np.shape(got) != expected.shape:
            failures.append(
                f"{label}: output has shape {np.shape(got)}, "
                f"expected {expected.shape} for output {''.join(output)!r}"
            )
        elif not np.allclose(got, expected):
            failures.append(f"{label}: wrong value")

    # sanity: unsliced, and an ordinary sliced output index
    tree = new_tree()
    check("unsliced", tree, full)
    tree.remove_ind_("y")
    check("slice y", tree, full)

    # history 1: slice the dimension-1 output index
    tree = new_tree()
    tree.remove_ind_("x")
    check("slice x (dimension 1 output index)", tree, full)

    # history 2: slice x and an inner index
    tree.remove_ind_("b")
    check("slice x, slice b", tree, full)

    # history 3: slice y and x -> fine; restore y -> must still be fine
    tree = new_tree()
    tree.remove_ind_("y")
    tree.remove_ind_("x")
    check("slice y, slice x", tree, full)
    tree.restore_ind_("y")
    check("slice y, slice x, restore y", tree, full)
    tree.restore_ind_("x")
    check("slice y, slice x, restore y, restore x", tree, full)

    # history 4: project an output index -> the fixed-index section, the
    # projected axis is kept with length one in the declared output order
    for j in range(size_dict["y"]):
        tree = new_tree()
        tree.remove_ind_("y", project=j)
        check(f"project y={j}", tree, full[:, j : j + 1, :])
        tree.remove_ind_("c")
        check(f"project y={j}, slice c", tree, full[:, j : j + 1, :])
        tree.remove_ind_("z")
        check(f"project y={j}, slice c, slice z", tree, full[:, j : j + 1, :])

    if failures:
        print("C02 VIOLATED:")
        for f in failures:
            print("  -", f)
        return 1
    print("ok: all contractions match einsum in value and shape")
    return 0


if __name__ == "__main__":
    sys.exit(main())
