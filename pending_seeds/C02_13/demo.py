"""C02 demo 13: a tree that has been contracted while sliced, and whose state
is then replaced in place by a forest / tempering optimisation that changes
the set of sliced indices, must still contract to the einsum value.

Exits 0 when every contraction matches ``numpy.einsum``, 1 otherwise.
"""
import sys

import numpy as np

import cotengra as ctg


def main():
    failures = []

    inputs, output, shapes, size_dict = ctg.utils.rand_equation(
        n=8, reg=3, n_out=2, d_min=2, d_max=2, seed=7
    )
    eq = ctg.utils.inputs_output_to_eq(inputs, output)
    rng = np.random.default_rng(1)
    arrays = [rng.uniform(0.5, 1.5, size=shape) for shape in shapes]
    expected = np.einsum(eq, *arrays)

    def check(label, tree):
        try:
            got = tree.contract(arrays)
        except Exception as e:  # noqa
            failures.append(f"{label}: contract raised {type(e).__name__}: {e}")
            return
        if np.shape(got) != expected.shape or not np.allclose(got, expected):
            failures.append(
                f"{label}: wrong value (sliced={list(tree.sliced_inds)}, "
                f"max rel err={np.max(np.abs(got / expected - 1)):.3g})"
            )

    # ---- history 1: slice x3 -> contract -> parallel_temper_ (in place) ----
    tree = ctg.array_contract_tree(inputs, output, size_dict, optimize="greedy")
    inner = [ix for ix in size_dict if ix not in output][:3]
    for ix in inner:
        tree.remove_ind_(ix)
    check("sliced x3", tree)

    # a huge target size + 'drift' mode -> every annealing step *unslices* one
    # index; inplace tempering then copies the best tree's state into ``tree``
    tree.parallel_temper_(
        tsteps=1,
        num_trees=2,
        numiter=1,
        target_size=2**40,
        slice_mode="drift",
        parallel=False,
        seed=0,
    )
    if len(tree.sliced_inds) >= 3:
        failures.append("setup: tempering was expected to unslice an index")
    check("sliced x3 -> contract -> parallel_temper_(inplace)", tree)

    # ---- history 2: slice x1 -> contract -> slice_and_reconfigure_forest_ --
    tree = ctg.array_contract_tree(inputs, output, size_dict, optimize="greedy")
    tree.remove_ind_(inner[0])
    check("sliced x1", tree)
    tree.slice_and_reconfigure_forest_(
        target_size=max(2, tree.max_size() // 4),
        num_trees=2,
        parallel=False,
    )
    if len(tree.sliced_inds) < 2:
        failures.append("setup: forest was expected to slice more indices")
    check("sliced x1 -> contract -> slice_and_reconfigure_forest_", tree)

    if failures:
        print("C02 VIOLATED:")
        for f in failures:
            print("  -", f)
        return 1
    print("ok: all contractions match einsum")
    return 0


if __name__ == "__main__":
    sys.exit(main())
