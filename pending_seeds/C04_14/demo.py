"""C04 demo 14: every figure a tree reports after a history of queries / slices /
reconfigurations / unslices must equal that of a tree freshly built from
(get_path(), sliced_inds).  The figures are read after *every* step, as a user
watching a progress bar (``tree.describe('concise')``) would.

Network: a chain  T0=ab, T1=bc, T2=cd  and a pair  T3=dx, T4=xa  that is
contracted with itself first and joined to the chain last.  ``x`` only ever
lives on the two *input* tensors T3, T4 - no intermediate carries it - while
``c`` lives on the intermediate (T0 T1).
"""

import sys

from cotengra.core import ContractionTree

inputs = [("a", "b"), ("b", "c"), ("c", "d"), ("d", "x"), ("x", "a")]
output = ()
size_dict = {"a": 2, "b": 3, "c": 3, "d": 2, "x": 5}
ssa_path = ((0, 1), (5, 2), (3, 4), (6, 7))


def fresh(tree):
    """Rebuild from scratch: same contraction order, same removed indices."""
    ref = ContractionTree.from_path(
        tree.inputs, tree.output, tree.size_dict, path=tree.get_path()
    )
    for ix, si in tree.sliced_inds.items():
        ref.remove_ind_(ix, project=si.project)
    return ref


def figures(tree):
    fig = dict(tree.contract_stats())
    fig["multiplicity"] = tree.multiplicity
    fig["total_flops"] = tree.total_flops()
    fig["total_write"] = tree.total_write()
    fig["max_size"] = tree.max_size()
    fig["peak_size"] = tree.peak_size()
    fig["combo_cost"] = tree.combo_cost()
    fig["path"] = tree.get_path()
    for node in tree.info:
        fig[tuple(sorted(node))] = (
            tuple(sorted(tree.get_legs(node))),
            tuple(sorted(tree.get_involved(node))),
            tree.get_flops(node),
            tree.get_size(node),
        )
    return fig


def check(tree, label):
    got, want = figures(tree), figures(fresh(tree))
    bad = [k for k in got if got[k] != want[k]]
    if bad:
        print(f"MISMATCH after {label}:")
        for k in bad:
            print(f"   {k}: tracked tree says {got[k]!r}, rebuild says {want[k]!r}")
        sys.exit(1)


tree = ContractionTree.from_path(inputs, output, size_dict, ssa_path=ssa_path)
check(tree, "build")
original = figures(tree)

done = []


def step(label, fn):
    fn()
    done.append(label)
    check(tree, " -> ".join(done))


# indices that live on intermediates ('c' on T0.T1, 'd' on both halves):
# slice, project, unslice
step("remove_ind_('c')", lambda: tree.remove_ind_("c"))
step("remove_ind_('d', project=0)", lambda: tree.remove_ind_("d", project=0))
step("restore_ind_('c')", lambda: tree.restore_ind_("c"))
step("restore_ind_('d')", lambda: tree.restore_ind_("d"))

# an index that only lives on two input tensors
step("remove_ind_('x')", lambda: tree.remove_ind_("x"))
step("subtree_reconfigure_()", lambda: tree.subtree_reconfigure_(subtree_size=3))
step("restore_ind_('x')", lambda: tree.restore_ind_("x"))

# a sliced copy made from a tree that was queried before must be right as well
check(tree.remove_ind("x"), "copy = tree.remove_ind('x')")

if tree.get_path() == original["path"] and figures(tree) != original:
    print("MISMATCH: slicing then unslicing did not restore the original figures")
    sys.exit(1)

print("ok: tracked figures equal a from-scratch rebuild after every step")
