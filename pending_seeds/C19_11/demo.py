"""C19 demo: exponent stripping must survive scales whose plain product
overflows / underflows double precision.

Network: (A @ B) contracted with (C @ D) to a scalar, balanced tree
((A B) (C D)).  Every tensor has a decimal scale within [-100, 100], chosen
such that both half-products sit just inside 1e154 while their product lies
outside the range of float64 (and a single precision case with scales 1e10).  The reference is computed in log-space with
pre-normalised tensors.
"""

import sys
import warnings

import numpy as np

import cotengra as ctg

warnings.simplefilter("ignore")

inputs = [("a", "b"), ("b", "c"), ("c", "d"), ("d", "a")]
output = ()
size_dict = {ix: 8 for ix in "abcd"}
path = ((0, 1), (0, 1), (0, 1))

rng = np.random.default_rng(7)
base = [rng.uniform(0.8, 1.0, size=(8, 8)) for _ in inputs]

tree = ctg.ContractionTree.from_path(inputs, output, size_dict, path=path)
assert {len(c) for c in tree.children[tree.root]} == {2}

# exact value of the normalised network
ref = float(np.einsum("ab,bc,cd,da->", *base))


def check(scales, label, sliced=None, dtype="float64", tol=1e-6):
    arrays = [(x * 10.0**s).astype(dtype) for x, s in zip(base, scales)]
    t = tree
    if sliced:
        t = tree.copy()
        for ix in sliced:
            t.remove_ind_(ix)
    m, e = t.contract(arrays, strip_exponent=True)
    m = float(m)
    e = float(e)
    want = np.log10(ref) + sum(scales)
    if not (np.isfinite(m) and np.isfinite(e)) or m == 0.0:
        print(f"FAIL [{label}]: mantissa={m!r} exponent={e!r} not usable, "
              f"expected log10(value)={want:.6f}")
        return False
    got = np.log10(abs(m)) + e
    if abs(got - want) > tol:
        print(f"FAIL [{label}]: log10(value)={got:.9f} but expected "
              f"{want:.9f}")
        return False
    print(f"ok   [{label}]: log10(value)={got:.6f}")
    return True


ok = True
# moderate scales, nothing special
ok &= check([3, -2, 5, 1], "moderate")
# extreme scales, far outside the float range very early
ok &= check([100, 100, 100, 100], "all 1e100")
ok &= check([-100, -100, -100, -100], "all 1e-100")
# both halves ~ 6e153, the product ~ 3e308 overflows float64
ok &= check([77, 76, 76, 77], "halves just below 1e154")
ok &= check([77, 76, 76, 77], "halves just below 1e154, sliced", sliced="b")
# small side (sanity)
ok &= check([-77, -77, -77, -77], "halves just above 1e-154")
ok &= check([-80, -80, -80, -80], "halves ~1e-159")
# single precision: the plain product ~1e41 overflows float32
ok &= check([10, 10, 10, 10], "float32, all 1e10", dtype="float32", tol=1e-4)

if not ok:
    print("exponent stripping lost the value for in-range per-tensor scales")
    sys.exit(1)
print("all good")
