"""C10 demo: an edge path handed to the high level interface must be converted
to a linear path that contracts exactly the tensors carrying each index at
that moment - whatever else the interface was used for earlier in the process.
"""
import random
import sys

import cotengra as ctg


def reference_nodes(edge_path, inputs):
    """Independent simulation of the index elimination order: returns the
    list of intermediate nodes (frozensets of input positions) in order."""
    tensors = {frozenset([i]): set(term) for i, term in enumerate(inputs)}
    made = []
    for ix in edge_path:
        group = [nd for nd, inds in tensors.items() if ix in inds]
        if len(group) < 2:
            continue
        new = frozenset().union(*group)
        inds = set().union(*(tensors.pop(nd) for nd in group))
        tensors[new] = inds
        made.append(new)
    return made


def nodes_of_linear_path(path, n):
    """Replay a linear (recycled ids) path, checking it is well formed."""
    nodes = [frozenset([i]) for i in range(n)]
    made = []
    for step in path:
        step = tuple(step)
        if not all(isinstance(i, int) for i in step):
            raise ValueError(f"step {step!r} is not made of positions")
        if len(set(step)) != len(step) or max(step) >= len(nodes):
            raise ValueError(f"step {step!r} is not valid here")
        group = [nodes.pop(i) for i in sorted(step, reverse=True)]
        new = frozenset().union(*group)
        nodes.append(new)
        made.append(new)
    return made


def check(inputs, output, size_dict, edge_path, what):
    expected = reference_nodes(edge_path, inputs)
    try:
        path = ctg.array_contract_path(
            inputs, output, size_dict, optimize=edge_path, cache=False
        )
        got = nodes_of_linear_path(path, len(inputs))
    except Exception as e:  # noqa
        print(f"FAIL ({what}): edge path {edge_path!r} was not converted to "
              f"a valid linear path: {type(e).__name__}: {e}")
        return False
    if got != expected:
        print(f"FAIL ({what}): edge path {edge_path!r} -> {path!r} contracts "
              f"{[sorted(x) for x in got]}, expected "
              f"{[sorted(x) for x in expected]}")
        return False

    try:
        tree = ctg.array_contract_tree(
            inputs, output, size_dict, optimize=edge_path
        )
    except Exception as e:  # noqa
        print(f"FAIL ({what}): edge path {edge_path!r} could not be turned "
              f"into a tree: {type(e).__name__}: {e}")
        return False
    missing = [x for x in expected if x not in tree.children]
    if missing or not tree.is_complete():
        print(f"FAIL ({what}): tree from edge path {edge_path!r} lacks the "
              f"intermediates {[sorted(x) for x in missing]}")
        return False
    return True


def main():
    ok = True
    rng = random.Random(0)

    con = ctg.utils.rand_equation(8, 3, n_out=1, n_hyper_in=1, seed=3)
    inputs, output, size_dict = con.inputs, con.output, con.size_dict
    indices = list(size_dict)

    # 1. ordinary use of explicit *linear* paths first
    lin = ctg.array_contract_path(inputs, output, size_dict, optimize="greedy")
    t = ctg.array_contract_tree(inputs, output, size_dict, optimize=tuple(lin))
    assert t.is_complete()
    p = ctg.array_contract_path(
        inputs, output, size_dict, optimize=[tuple(s) for s in lin]
    )
    assert [tuple(s) for s in p] == [tuple(s) for s in lin]
    # ... including a two tensor network, for which the interface itself
    # supplies the only possible linear path
    ctg.array_contract_tree([("a", "b"), ("b", "c")], ("a", "c"),
                            {"a": 2, "b": 2, "c": 2})

    # 2. now edge paths, given as tuple and as list
    for container in (tuple, list):
        rng.shuffle(indices)
        ok &= check(inputs, output, size_dict, container(indices),
                    f"after linear paths, {container.__name__}")

    # 3. and linear paths must still be taken as linear paths
    try:
        p = ctg.array_contract_path(
            inputs, output, size_dict, optimize=tuple(lin), cache=False
        )
        if [tuple(s) for s in p] != [tuple(s) for s in lin]:
            print(f"FAIL: linear path {lin!r} came back as {p!r}")
            ok = False
    except Exception as e:  # noqa
        print(f"FAIL: explicit linear path rejected: {type(e).__name__}: {e}")
        ok = False

    if not ok:
        sys.exit(1)
    print("OK: edge paths convert to the expected linear paths / trees")


if __name__ == "__main__":
    main()
