"""C15 demo: an entry already in the on-disk cache is overwritten by a second
process (overwrite=True) on a file system that refuses to rename over the
existing entry (what Windows / SMB mounts do while a reader has the destination
open: PermissionError), and that process is killed while it is still storing.
A later process pointed at the same directory must still be able to use the
contraction: it finds the old or the new complete entry, or none.

exit 0: property holds,  exit 1: property violated
"""

import os
import pickle
import shutil
import subprocess
import sys
import tempfile
import textwrap

import cotengra as ctg

SETUP = r"""
import os, sys
import cotengra as ctg
d = sys.argv[1]
inputs, output, shapes, size_dict = ctg.utils.lattice_equation([4, 5], seed=7)
"""

# process 1: ordinary run, stores the entry and exits normally
FIRST = SETUP + textwrap.dedent(
    r"""
    opt = ctg.ReusableHyperOptimizer(directory=d, methods=["greedy"], max_repeats=2)
    opt.search(inputs, output, size_dict)
    """
)

# process 2: re-optimizes the same contraction with overwrite=True; the rename
# over the existing entry is refused, and the process is then killed by the
# kernel (SIGXFSZ from a file size limit) at a byte offset in the middle of
# whatever it writes next
SECOND = SETUP + textwrap.dedent(
    r"""
    import resource, signal
    real_replace = os.replace

    def refusing_replace(src, dst, **kw):
        if os.path.exists(dst):
            half = max(os.path.getsize(src) // 2, 1)
            signal.signal(signal.SIGXFSZ, signal.SIG_DFL)
            resource.setrlimit(resource.RLIMIT_FSIZE, (half, half))
            raise PermissionError(
                13, "The process cannot access the file because it is being "
                "used by another process", str(dst)
            )
        return real_replace(src, dst, **kw)

    os.replace = refusing_replace
    opt = ctg.ReusableHyperOptimizer(
        directory=d, methods=["greedy"], max_repeats=2, overwrite=True
    )
    opt.search(inputs, output, size_dict)
    """
)


def run(src, d):
    return subprocess.run(
        [sys.executable, "-c", src, d],
        stdout=subprocess.DEVNULL,
        stderr=subprocess.DEVNULL,
    ).returncode


def main():
    d = tempfile.mkdtemp(prefix="c15_12_")
    try:
        rc = run(FIRST, d)
        if rc != 0:
            print("first process failed, rc =", rc)
            return 2
        rc = run(SECOND, d)
        print("second (overwriting) process died with rc =", rc)
        if rc == 0:
            print("second process was expected to die")
            return 2

        # ---- the later process ----
        inputs, output, shapes, size_dict = ctg.utils.lattice_equation(
            [4, 5], seed=7
        )
        opt = ctg.ReusableHyperOptimizer(
            directory=d, methods=["greedy"], max_repeats=2
        )
        h, missing = opt.hash_query(inputs, output, size_dict)
        print("entry present for later process:", not missing)
        if missing:
            print("VIOLATION: the entry stored before the crash is gone")
            return 1
        try:
            tree = opt.search(inputs, output, size_dict)
        except Exception as e:
            print(
                "VIOLATION: later process fails on the contraction: "
                f"{type(e).__name__}: {e}"
            )
            return 1
        with open(opt._cache._path.joinpath(*h), "rb") as f:
            con = pickle.load(f)
        assert tuple(con["path"]) == tuple(tree.get_path())
        print("ok: complete entry found; tree contracts", tree.N, "tensors")
        return 0
    finally:
        shutil.rmtree(d, ignore_errors=True)


if __name__ == "__main__":
    sys.exit(main())
