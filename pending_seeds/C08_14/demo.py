"""C08 demo: the returned trial must be the arg-min of all the trials run,
also when the search is cut short by `max_time`.

Uses the deterministic early-stopping rule ``max_time="equil:K"`` (stop once
more than K trials in a row did not improve on the best) with the seeded
random sampler and a deterministic path finder, serially.  After every
search: the best trial must have the minimum of all recorded scores and its
recorded costs must be those of the returned tree.
"""

import sys
import warnings

warnings.filterwarnings("ignore")

import cotengra as ctg
from cotengra.core import ContractionTree, jitter_dict
from cotengra.hyperoptimizers.hyper import register_hyper_function
from cotengra.pathfinders.path_greedy import ssa_greedy_optimize


def trial_det(inputs, output, size_dict, seed=0):
    # deterministic: greedy on sizes jittered by a seeded generator
    jd = jitter_dict(size_dict, 1.0, int(seed))
    ssa_path = ssa_greedy_optimize(inputs, output, jd)
    return ContractionTree.from_path(
        inputs, output, size_dict, ssa_path=ssa_path
    )


register_hyper_function(
    "demo-det",
    trial_det,
    space={"seed": {"type": "INT", "min": 0, "max": 10**6}},
)


def check(opt, tree, max_repeats):
    if len(opt.scores) > max_repeats:
        return f"ran {len(opt.scores)} trials, only {max_repeats} requested"
    if not tree.is_complete():
        return "returned tree is not complete"
    smin = min(opt.scores)
    if opt.best["score"] != smin:
        i = opt.scores.index(smin)
        return (
            f"returned trial has score {opt.best['score']:.6f} "
            f"(flops={opt.best['flops']}), but trial #{i} of the "
            f"{len(opt.scores)} trials run scored {smin:.6f} "
            f"(flops={opt.costs_flops[i]})"
        )
    stats = tree.contract_stats(force=True)
    for k in ("flops", "write", "size"):
        if opt.best[k] != stats[k]:
            return f"recorded {k}={opt.best[k]} but tree has {stats[k]}"
    return None


def main():
    inputs, output, _, size_dict = ctg.utils.rand_equation(
        30, 4, seed=7, d_min=2, d_max=4
    )
    inputs = tuple(map(tuple, inputs))
    output = tuple(output)

    max_repeats = 64
    nbad = 0
    nsearch = 0
    for max_time in ("equil:1", "equil:3"):
        for seed in range(60):
            opt = ctg.HyperOptimizer(
                methods=["demo-det"],
                optlib="random",
                seed=seed,
                max_repeats=max_repeats,
                max_time=max_time,
                parallel=False,
                on_trial_error="raise",
            )
            tree = opt.search(inputs, output, size_dict)
            nsearch += 1
            msg = check(opt, tree, max_repeats)
            if msg is not None:
                nbad += 1
                if nbad <= 3:
                    print(
                        f"FAIL (max_time={max_time!r}, sampler seed={seed}): "
                        f"{msg}"
                    )

    if nbad:
        print(f"FAIL: {nbad} of {nsearch} searches did not return their best trial")
        return 1

    print(f"OK: all {nsearch} searches returned the arg-min of their trials")
    return 0


if __name__ == "__main__":
    sys.exit(main())
