"""C20 demo: for any cap chi the compressed estimates of the largest tensor,
the peak memory and the total write must not exceed the uncapped ones (and
without truncation flops / write / largest tensor equal the exact figures).
Checked here also for networks in which two *input* tensors are joined by
more than one bond."""
import sys
import warnings

warnings.simplefilter("ignore")

import cotengra as ctg

HUGE = 10**15
problems = []


def check(name, inputs, output, size_dict, optimize="greedy"):
    tree = ctg.array_contract_tree(
        inputs, output, size_dict, optimize=optimize, canonicalize=False
    )
    leaves = [tree.get_size(leaf) for leaf in tree.gen_leaves()]
    F, W = tree.total_flops(), tree.total_write() + sum(leaves)
    S = max([tree.max_size()] + leaves)
    for order in ("surface_order", "dfs"):
        for late in (False, True):
            where = f"{name} order={order} compress_late={late}"
            st = tree.compressed_contract_stats(
                chi=HUGE, order=order, compress_late=late
            )
            if (st.flops, st.write, st.max_size) != (F, W, S):
                problems.append(
                    f"{where}: uncapped (flops, write, size) = "
                    f"{(st.flops, st.write, st.max_size)} != exact {(F, W, S)}"
                )
            for chi in (1, 2, 4, 16):
                sc = tree.compressed_contract_stats(
                    chi=chi, order=order, compress_late=late
                )
                for what in ("max_size", "peak_size", "write"):
                    capped, uncapped = getattr(sc, what), getattr(st, what)
                    if capped > uncapped:
                        problems.append(
                            f"{where}: {what} with chi={chi} is {capped}"
                            f" > uncapped {uncapped}"
                        )


# 1. simple graphs: every pair of tensors shares at most one index
inputs, output, _, size_dict = ctg.utils.lattice_equation([4, 4], d_max=3, seed=1)
check("lattice", inputs, output, size_dict)
inputs = [("a", "b"), ("b", "c", "x"), ("c", "d"), ("d", "a", "y"), ("x", "y", "z")]
check("ring", inputs, ("z",), dict(a=3, b=4, c=5, d=2, x=3, y=2, z=6))

# 2. two small input tensors joined by a double bond (a, b), feeding a part
#    of the network whose memory peak comes after they have been contracted
inputs = [
    ("a", "b", "p"),
    ("a", "b", "q"),
    ("p", "r", "u"),
    ("q", "s", "v"),
    ("r", "s", "w"),
]
output = ("u", "v", "w")
size_dict = dict(a=6, b=6, p=2, q=2, r=3, s=3, u=5, v=5, w=4)
check("double-bond", inputs, output, size_dict)

# 3. a 'ladder' whose rungs are all double bonds
inputs = [
    ("a1", "a2", "x1"),
    ("a1", "a2", "y1"),
    ("x1", "b1", "b2", "x2"),
    ("y1", "b1", "b2", "y2"),
    ("x2", "c1", "c2"),
    ("y2", "c1", "c2"),
]
size_dict = {ix: 4 for term in inputs for ix in term}
check("ladder", inputs, (), size_dict)

if problems:
    print(f"C20 violated ({len(problems)} findings), first ones:")
    for p in problems[:6]:
        print("  ", p)
    sys.exit(1)
print("ok: capped estimates never exceed the uncapped ones")
