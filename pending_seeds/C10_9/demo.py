"""C10 demo: tree -> SSA path -> tree, and edge path -> tree, must also work
when the SSA path happens to contain no step at all (a one tensor network, or
a network in which the eliminated indices never join two tensors, so that the
whole tree comes from the auto-completion).
"""
import sys
import warnings

import cotengra as ctg

warnings.simplefilter("ignore")


def attempt(what, fn):
    try:
        return fn()
    except Exception as e:  # noqa
        print(f"FAIL ({what}): {type(e).__name__}: {e}")
        return None


def main():
    ok = True

    # ordinary round trips, linear and ssa, dfs and a custom order
    con = ctg.utils.rand_equation(10, 3, n_out=2, seed=7)
    inputs, output, size_dict = con.inputs, con.output, con.size_dict
    tree = ctg.array_contract_tree(inputs, output, size_dict, optimize="greedy")
    for order in (None, lambda node: -min(node)):
        for kw, p in (
            ("path", tree.get_path(order)),
            ("ssa_path", tree.get_ssa_path(order)),
        ):
            t2 = ctg.ContractionTree.from_path(
                inputs, output, size_dict, **{kw: p}
            )
            if set(t2.children) != set(tree.children):
                print(f"FAIL: {kw} round trip changed the tree")
                ok = False

    # 1. one tensor network: its (empty) ssa path must give the tree back
    one = ctg.ContractionTree.from_eq("abc->abc", {"a": 2, "b": 3, "c": 4})
    lin, ssa = one.get_path(), one.get_ssa_path()
    assert lin == () and ssa == ()
    t = attempt(
        "one tensor tree -> linear path -> tree",
        lambda: ctg.ContractionTree.from_path(
            one.inputs, one.output, one.size_dict, path=lin
        ),
    )
    ok &= t is not None and t.is_complete()
    t = attempt(
        "one tensor tree -> ssa path -> tree",
        lambda: ctg.ContractionTree.from_path(
            one.inputs, one.output, one.size_dict, ssa_path=ssa
        ),
    )
    ok &= t is not None and t.is_complete() and t.get_ssa_path() == ()

    # 2. an optimizer that reports ssa paths, on the same network
    t = attempt(
        "GreedyOptimizer.search on a one tensor network",
        lambda: ctg.pathfinders.path_basic.GreedyOptimizer().search(
            one.inputs, one.output, one.size_dict
        ),
    )
    ok &= t is not None and t.get_path() == ()

    # 3. edge path over indices that each live on a single tensor: no index
    #    joins two tensors, so the conversion has no step and from_path has
    #    to complete the tree on its own
    inputs = [("a", "x"), ("b",), ("c", "y")]
    output = ("a", "b", "c")
    size_dict = {ix: 2 for ix in "abcxy"}
    for edge_path in (("x", "a", "y", "c", "b"), ()):
        sp = ctg.pathfinders.path_basic.edge_path_to_ssa(edge_path, inputs)
        assert tuple(sp) == ()
        t = attempt(
            f"from_path(edge_path={edge_path!r}) on an outer product",
            lambda: ctg.ContractionTree.from_path(
                inputs, output, size_dict, edge_path=edge_path,
                autocomplete=True,
            ),
        )
        ok &= t is not None and t.is_complete() and len(t.children) == 2

    # 4. the same through the incomplete ssa path '()' with and without
    #    auto-completion
    t = attempt(
        "from_path(ssa_path=(), autocomplete=False)",
        lambda: ctg.ContractionTree.from_path(
            inputs, output, size_dict, ssa_path=(), autocomplete=False
        ),
    )
    ok &= t is not None and len(t.children) == 0

    if not ok:
        sys.exit(1)
    print("OK: empty ssa / edge paths convert to trees like any other path")


if __name__ == "__main__":
    main()
