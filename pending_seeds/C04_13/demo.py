"""C04 demo 13: figures reported after slice / slice / unslice must equal those
of a tree freshly built from (get_path(), sliced_inds).

Network (4 tensors, two balanced halves x = {0, 1} and y = {2, 3}):

    T0 = a p o     T1 = p b     T2 = b r     T3 = r a s     ->  o s

x carries the large output index ``o``, y the small output index ``s``, so
x is the bigger half, but only as long as ``o`` is not sliced.
"""

import sys

from cotengra.core import ContractionTree

inputs = [("a", "p", "o"), ("p", "b"), ("b", "r"), ("r", "a", "s")]
output = ("o", "s")
size_dict = {"a": 3, "b": 3, "p": 2, "r": 5, "o": 4, "s": 2}
path = ((0, 1), (0, 1), (0, 1))  # linear (recycled ids): x, then y, then root


def fresh(tree):
    """Rebuild from scratch: same contraction order, same removed indices."""
    ref = ContractionTree.from_path(
        tree.inputs, tree.output, tree.size_dict, path=tree.get_path()
    )
    for ix, si in tree.sliced_inds.items():
        ref.remove_ind_(ix, project=si.project)
    return ref


def figures(tree):
    fig = dict(tree.contract_stats())
    fig["multiplicity"] = tree.multiplicity
    fig["peak_size"] = tree.peak_size()
    fig["combo_cost"] = tree.combo_cost()
    fig["path"] = tree.get_path()
    for node in tree.children:
        fig[tuple(sorted(node))] = (
            tuple(sorted(tree.get_legs(node))),
            tuple(sorted(tree.get_involved(node))),
            tree.get_flops(node),
            tree.get_size(node),
        )
    return fig


def check(tree, label):
    got, want = figures(tree), figures(fresh(tree))
    bad = [k for k in got if got[k] != want[k]]
    if bad:
        print(f"MISMATCH after {label}:")
        for k in bad:
            print(f"   {k}: tracked tree says {got[k]!r}, rebuild says {want[k]!r}")
        sys.exit(1)


tree = ContractionTree.from_path(inputs, output, size_dict, path=path)
original = figures(tree)
check(tree, "build")

steps = [
    ("remove_ind_", "o"),
    ("remove_ind_", "a"),
    ("restore_ind_", "a"),  # re-creates the root while 'o' is still sliced
    ("restore_ind_", "o"),
]
done = []
for meth, ix in steps:
    getattr(tree, meth)(ix)
    done.append(f"{meth}({ix!r})")
    check(tree, " -> ".join(done))

if figures(tree) != original:
    print("MISMATCH: slicing then unslicing did not restore the original figures")
    sys.exit(1)

print("ok: tracked figures equal a from-scratch rebuild after every step")
