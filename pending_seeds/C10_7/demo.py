"""C10 demo: a tree converted to a linear path and back must give the same
tree -- also when the path is asked for, the tree is then locally restructured
(a subtree reconfiguration that does not reach the root), and the path is asked
for again."""
import sys
import warnings

import cotengra as ctg
from cotengra.pathfinders.path_basic import ssa_to_linear

warnings.simplefilter("ignore")


def fail(msg):
    print("FAIL:", msg)
    sys.exit(1)


def nodes_of(tree):
    return set(map(frozenset, tree.children))


def check_roundtrip(tree, what):
    path = tree.get_path()
    # the linear and the ssa form of the same (default, dfs) traversal agree
    via_ssa = tuple(
        tuple(p) for p in ssa_to_linear(tree.get_ssa_path(), tree.N)
    )
    if tuple(tuple(p) for p in path) != via_ssa:
        fail(
            f"{what}: get_path() is not the linear form of get_ssa_path():"
            f"\n  get_path     -> {path}\n  get_ssa_path -> {via_ssa}"
        )
    back = ctg.ContractionTree.from_path(
        tree.inputs, tree.output, tree.size_dict, path=path
    )
    if nodes_of(back) != nodes_of(tree):
        fail(
            f"{what}: tree -> get_path() -> from_path() gives a different "
            f"tree ({len(nodes_of(back) ^ nodes_of(tree))} intermediates "
            "differ)"
        )


n_restructured = 0
for seed in range(4):
    inputs, output, shapes, size_dict = ctg.utils.rand_equation(
        14, 3, n_out=2, d_min=2, d_max=5, seed=seed
    )
    # a deliberately poor 'caterpillar' path, so that there is room to improve
    path = [(0, 1)] * (len(inputs) - 1)
    tree = ctg.ContractionTree.from_path(inputs, output, size_dict, path=path)
    check_roundtrip(tree, f"seed {seed}, initial tree")

    before = nodes_of(tree)
    # improve only the single most expensive subtree
    tree.subtree_reconfigure_(subtree_size=4, maxiter=1, select="max")
    n_restructured += nodes_of(tree) != before
    check_roundtrip(tree, f"seed {seed}, after one subtree reconfiguration")

    # a copy that is optimised further must also report its own path
    other = tree.copy()
    other.subtree_reconfigure_(subtree_size=6, maxiter=2, select="max")
    check_roundtrip(other, f"seed {seed}, further optimised copy")
    check_roundtrip(tree, f"seed {seed}, original after copy was optimised")

if not n_restructured:
    fail("demo is vacuous: no tree was restructured")

print("OK: path round trips survive local restructuring of the tree")
