"""C19 demo: with exponent stripping (and ``check_zero=True``) a sliced
contraction must give mantissa * 10**exponent == plain result, whatever was
contracted with the same tree before.

The network is sliced over an inner index ``b``; tensor A vanishes for b == 0,
so that slice contains an exactly zero intermediate while the total is
non-zero.  ``check_zero=True`` is the documented way to make such a slice
contribute (0.0, -inf) instead of nan.
"""

import sys
import warnings

import numpy as np

import cotengra as ctg

warnings.simplefilter("ignore")

inputs = [("a", "b"), ("b", "c"), ("c", "d"), ("d", "a")]
output = ()
size_dict = {"a": 4, "b": 3, "c": 4, "d": 4}
path = ((0, 1), (0, 1), (0, 1))

rng = np.random.default_rng(11)
dense = [
    rng.uniform(0.5, 1.0, size=tuple(size_dict[ix] for ix in term))
    for term in inputs
]
# same network, but A[:, b=0] is exactly zero -> slice b=0 is exactly zero
holed = [x.copy() for x in dense]
holed[0][:, 0] = 0.0


def new_tree():
    tree = ctg.ContractionTree.from_path(inputs, output, size_dict, path=path)
    tree.remove_ind_("b")
    assert tree.nslices == 3
    return tree


def value(res):
    m, e = res
    return float(m) * 10 ** float(e)


expected = float(np.einsum("ab,bc,cd,da->", *holed))
assert expected != 0.0

ok = True

# 1. fresh tree, straight to the checked contraction
tree = new_tree()
x = value(tree.contract(holed, strip_exponent=True, check_zero=True))
print(f"fresh tree                     : {x!r} (expected {expected!r})")
ok &= bool(np.isfinite(x)) and abs(x - expected) <= 1e-9 * abs(expected)

# 2. the same, but the tree has been used before for an ordinary stripped
#    contraction of fully dense arrays (no check_zero needed there)
tree = new_tree()
y0 = value(tree.contract(dense, strip_exponent=True))
assert abs(y0 - float(np.einsum("ab,bc,cd,da->", *dense))) < 1e-9 * y0
y = value(tree.contract(holed, strip_exponent=True, check_zero=True))
print(f"after an earlier stripped call : {y!r} (expected {expected!r})")
ok &= bool(np.isfinite(y)) and abs(y - expected) <= 1e-9 * abs(expected)

# 3. and the generator of output chunks on the re-used tree
(chunk,) = tree.gen_output_chunks(holed, strip_exponent=True, check_zero=True)
z = value(chunk)
print(f"gen_output_chunks, re-used tree: {z!r} (expected {expected!r})")
ok &= bool(np.isfinite(z)) and abs(z - expected) <= 1e-9 * abs(expected)

if not ok:
    print(
        "FAIL: stripped result with check_zero=True differs from the plain "
        "contraction once the tree had been contracted before"
    )
    sys.exit(1)
print("all good")
