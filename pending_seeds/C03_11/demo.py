"""C03 demo: a rejected (duplicate) in-place slicing request must leave the
reported costs untouched.

Sequence: slice index ``ix`` in place, then ask for the same index again in
place (which is refused with a ValueError that the caller handles), then compare
flops / write / size / peak with an independent recomputation from the network,
and check that the sliced contraction still runs and gives the einsum value.
"""
import sys
from math import prod

import numpy as np

import cotengra as ctg


def independent_stats(tree):
    """Recompute all four quantities from the network + tree structure only."""
    inputs, output, sd = tree.inputs, tree.output, tree.size_dict
    removed = set(tree.sliced_inds)
    nslices = prod(
        sd[ix] for ix, si in tree.sliced_inds.items() if si.project is None
    )
    total = {}
    for term in inputs:
        for ix in term:
            total[ix] = total.get(ix, 0) + 1
    for ix in output:
        total[ix] = total.get(ix, 0) + 1

    def count(node):
        c = {}
        for i in node:
            for ix in inputs[i]:
                if ix not in removed:
                    c[ix] = c.get(ix, 0) + 1
        return c

    def surviving(node):
        if len(node) == len(inputs):
            return {ix for ix in output if ix not in removed}
        return {ix for ix, n in count(node).items() if n < total[ix]}

    def size(node):
        return prod(sd[ix] for ix in surviving(node))

    flops = write = 0
    biggest = 0
    live = sum(size(frozenset([i])) for i in range(len(inputs)))
    peak = live
    for p, l, r in tree.traverse():
        involved = surviving(l) | surviving(r)
        flops += prod(sd[ix] for ix in involved)
        write += size(p)
        biggest = max(biggest, size(p))
        live += size(p)
        peak = max(peak, live)
        live -= size(l) + size(r)
    return {
        "flops": nslices * flops,
        "write": nslices * write,
        "size": biggest,
        "peak": peak,
        "nslices": nslices,
    }


def reported_stats(tree):
    return {
        "flops": tree.total_flops(),
        "write": tree.total_write(),
        "size": tree.max_size(),
        "peak": tree.peak_size(),
        "nslices": tree.nslices,
    }


def main():
    con = ctg.utils.rand_equation(9, 3, n_out=1, n_hyper_in=1, seed=7)
    inputs, output, shapes, size_dict = con
    tree = ctg.array_contract_tree(
        inputs, output, size_dict, optimize="greedy", canonicalize=False
    )
    arrays = ctg.utils.make_arrays_from_inputs(inputs, size_dict, seed=3)
    expected = np.einsum(
        ctg.utils.inputs_output_to_eq(inputs, output), *arrays
    )

    # pick an inner index that takes part in the most expensive contraction
    node = max(tree.children, key=tree.get_flops)
    ix = next(i for i in tree.get_involved(node) if i not in output)

    tree.remove_ind_(ix)
    for candidate in (ix,):
        # e.g. a user looping over candidate indices to slice
        try:
            tree.remove_ind_(candidate)
        except ValueError:
            pass  # already sliced: request refused, nothing should change

    rep, ind = reported_stats(tree), independent_stats(tree)
    if rep != ind:
        print("FAIL: reported costs differ from the definition after a")
        print("      refused duplicate remove_ind_ call")
        print("  reported   :", rep)
        print("  independent:", ind)
        return 1

    try:
        x = tree.contract(arrays)
    except Exception as e:  # noqa
        print("FAIL: sliced contraction raised", type(e).__name__, e)
        return 1
    if not np.allclose(x, expected):
        print("FAIL: sliced contraction gives a different value")
        return 1

    print("OK", rep)
    return 0


if __name__ == "__main__":
    sys.exit(main())
