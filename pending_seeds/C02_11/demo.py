"""C02 demo: projecting an index to a fixed value must give exactly the
corresponding fixed-index section of the full contraction - also when the
index is an *output* index, for every value, and when mixed with slicing."""
import sys

import numpy as np

import cotengra as ctg

inputs = [("a", "b", "x"), ("b", "c"), ("c", "d", "y"), ("d", "a")]
output = ("y", "x")
size_dict = {"a": 2, "b": 3, "c": 2, "d": 3, "x": 4, "y": 3}
eq = ctg.utils.inputs_output_to_eq(inputs, output)

arrays = ctg.utils.make_arrays_from_inputs(inputs, size_dict, seed=11)
full = np.einsum(eq, *arrays)

tree = ctg.ContractionTree.from_path(
    inputs, output, size_dict, path=[(0, 1), (0, 1), (0, 1)]
)


def section(projected):
    """The expected result: einsum of the arrays restricted to the fixed
    values (the projected axes are kept with size 1)."""
    parr = [
        a[
            tuple(
                slice(projected[ix], projected[ix] + 1)
                if ix in projected
                else slice(None)
                for ix in term
            )
        ]
        for a, term in zip(arrays, inputs)
    ]
    return np.einsum(eq, *parr)


def check(tree, projected, what):
    expected = section(projected)
    try:
        x = tree.contract(arrays)
    except Exception as e:  # noqa
        print(f"FAIL ({what}): contraction raised {type(e).__name__}: {e!r}")
        sys.exit(1)
    if np.shape(x) != expected.shape or not np.allclose(x, expected):
        print(
            f"FAIL ({what}): got shape {np.shape(x)}, expected "
            f"{expected.shape}, max abs diff "
            f"{np.abs(np.reshape(x, -1)[:1] - np.reshape(expected, -1)[:1])}"
        )
        sys.exit(1)


check(tree, {}, "fresh tree")

# inner index, every value (what the test-suite does)
for k in range(size_dict["b"]):
    check(tree.remove_ind("b", project=k), {"b": k}, f"project inner b={k}")

# output index, first value
check(tree.remove_ind("x", project=0), {"x": 0}, "project output x=0")

# output index, the other values
for k in range(1, size_dict["x"]):
    check(tree.remove_ind("x", project=k), {"x": k}, f"project output x={k}")

# mixed with slicing of another output index and an inner index
t = tree.remove_ind("y", project=2).remove_ind("x").remove_ind("c")
check(t, {"y": 2}, "project y=2, slice x and c")
t.subtree_reconfigure_(subtree_size=4)
check(t, {"y": 2}, "project y=2, slice x and c, reconfigure")
t.restore_ind_("x")
check(t, {"y": 2}, "project y=2, slice c")
t.restore_ind_("y")
check(t, {}, "projection restored, slice c")

print("OK")
