"""C07 demo: the size the slice finder predicts is real and ``target_size``
holds on the tree actually sliced, also when outer indices are protected.

Networks with a few output indices are sliced with every ``allow_outer``
mode; whenever the search returns something, the predicted (size, flops,
nslices) must equal those of the sliced tree and the largest tensor of that
tree must respect the requested ``target_size``.

Exits 0 if that always holds, 1 (with a message) otherwise.
"""

import sys

import cotengra as ctg
from cotengra.slicer import SliceFinder


def main():
    problems = []
    nchecked = 0

    for net_seed in range(60):
        tree = ctg.utils.rand_tree(
            9, 3, n_out=3, n_hyper_out=1, d_min=2, d_max=4, seed=net_seed
        )

        for allow_outer in (True, False, "only"):
            for div in (2, 4, 8):
                target_size = max(1, tree.max_size() // div)
                sf = SliceFinder(
                    tree,
                    target_size=target_size,
                    allow_outer=allow_outer,
                    temperature=0.01,
                    seed=net_seed,
                )
                try:
                    ix_sl, cost = sf.search(4)
                except (RuntimeError, ValueError, KeyError):
                    # the target can't be reached with the allowed indices
                    continue
                nchecked += 1

                real = tree.copy()
                for ix in ix_sl:
                    real.remove_ind_(ix)

                where = (
                    f"network seed={net_seed} output={sorted(tree.output)} "
                    f"allow_outer={allow_outer!r} target_size={target_size} "
                    f"sliced={sorted(ix_sl)}"
                )
                pred = (cost.size, cost.total_flops, cost.nslices)
                actual = (
                    real.max_size(),
                    real.contraction_cost(),
                    real.nslices,
                )
                if pred != actual:
                    problems.append(
                        f"{where}: predicted (size, flops, nslices) = {pred} "
                        f"but the sliced tree has {actual}"
                    )
                if real.max_size() > target_size:
                    problems.append(
                        f"{where}: largest tensor of the sliced tree is "
                        f"{real.max_size()} > target_size"
                    )

    if problems:
        print(
            f"FAIL: {len(problems)} problems in {nchecked} searches, e.g."
        )
        for p in problems[:4]:
            print("  -", p)
        return 1

    print(f"OK: {nchecked} searches, predicted sizes real, targets honoured")
    return 0


if __name__ == "__main__":
    sys.exit(main())
