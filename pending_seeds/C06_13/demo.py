"""C06 demo: after the state of a sliced tree is replaced in place (what
``slice_and_reconfigure_forest_`` / ``set_state_from`` do), the slice numbers
must still enumerate the combinations of the *new* sliced indices and the
slices must still sum / stack to the unsliced contraction.
"""
import itertools
import random
import sys

import numpy as np

import cotengra as ctg


def fail(msg):
    print("FAIL:", msg)
    sys.exit(1)


def check_tree(tree, arrays, ref, label):
    # 1. slice numbers <-> combinations of sliced index values, one-to-one
    want = set(
        itertools.product(
            *(tuple(si.sliced_range) for si in tree.sliced_inds.values())
        )
    )
    try:
        got = [
            tuple(tree.slice_key(i)[ix] for ix in tree.sliced_inds)
            for i in range(tree.nslices)
        ]
    except Exception as e:  # noqa
        fail(f"{label}: slice_key raised {type(e).__name__}: {e}")
    if len(set(got)) != len(got) or set(got) != want:
        fail(
            f"{label}: slice numbers do not enumerate the combinations of "
            f"{list(tree.sliced_inds)} exactly once: {got}"
        )
    # 2. reassembly
    try:
        x = tree.contract(arrays)
    except Exception as e:  # noqa
        fail(f"{label}: contract raised {type(e).__name__}: {e}")
    if np.shape(x) != np.shape(ref) or not np.allclose(x, ref):
        fail(f"{label}: sliced contraction differs from the unsliced one")


def main():
    random.seed(0)
    np.random.seed(0)

    inputs, output, shapes, size_dict = ctg.utils.rand_equation(
        n=10, reg=3, n_out=2, d_min=2, d_max=3, seed=3
    )
    arrays = ctg.utils.make_arrays_from_inputs(inputs, size_dict, seed=1)
    eq = ctg.utils.inputs_output_to_eq(inputs, output)
    ref = np.einsum(eq, *arrays, optimize="greedy")
    base = ctg.array_contract_tree(
        inputs, output, size_dict, optimize="greedy", canonicalize=False
    )
    assert base.output == tuple(output) or list(base.output) == list(output)

    # indices: c, g have size 3 and e, f have size 2, all inner; 'a' is output
    assert [size_dict[ix] for ix in "cegf"] == [3, 2, 3, 2]

    # --- scenario A: explicit set_state_from between two sliced trees ------
    t1 = base.copy()
    t1.remove_ind_("c")
    t1.remove_ind_("e")
    check_tree(t1, arrays, ref, "A/t1 before")

    t2 = base.copy()
    t2.remove_ind_("f")
    t2.remove_ind_("g")
    check_tree(t2, arrays, ref, "A/t2")

    t1.set_state_from(t2)
    if list(t1.sliced_inds) != list(t2.sliced_inds):
        fail("A: set_state_from did not transfer the sliced indices")
    check_tree(t1, arrays, ref, "A/t1 after set_state_from(t2)")

    # same again with an output index and a different number of indices
    t2.remove_ind_("a")
    check_tree(t2, arrays, ref, "A/t2 with output index")
    t1.set_state_from(t2)
    check_tree(t1, arrays, ref, "A/t1 after 2nd set_state_from(t2)")

    # --- scenario B: contract a sliced tree, then slice it further in place
    # with the forested slicer (which ends in a set_state_from) -------------
    t3 = base.copy()
    t3.remove_ind_("c")
    check_tree(t3, arrays, ref, "B before")
    t3.slice_and_reconfigure_forest_(
        target_size=max(t3.max_size() // 6, 2),
        num_trees=2,
        max_repeats=4,
        parallel=False,
    )
    if len(t3.sliced_inds) < 2:
        fail("B: demo set-up problem, forest did not slice anything more")
    check_tree(t3, arrays, ref, "B after slice_and_reconfigure_forest_")

    print("OK")


if __name__ == "__main__":
    main()
