"""C11 demo: one-operand einsum through cotengra's own implementation
(diagonal by indexing -> sum -> transpose), which is what
``cotengra.contract.einsum`` uses for array libraries without an einsum, must
agree with numpy.einsum for every equation / shape, including repeated and
summed indices in any arrangement.

The fallback is reached through the public ``cotengra.contract.einsum`` by
asking for the ``numpy.ma`` backend, which offers sum/transpose but no einsum.
"""
import itertools
import sys

import numpy as np
import cotengra  # noqa: F401

cc = sys.modules["cotengra.contract"]

rng = np.random.default_rng(1110)

# make sure we really exercise the library's own implementation
try:
    from autoray import do

    do("einsum", "a->a", np.zeros(2), like="numpy.ma")
except ImportError:
    pass
else:
    print("SKIP: numpy.ma unexpectedly provides einsum")
    sys.exit(0)

SYMS = "abc"
SIZES = (1, 2, 3)

ncase = 0
bad = []
for rank in range(0, 5):
    for lhs in itertools.product(SYMS, repeat=rank):
        lhs = "".join(lhs)
        # canonical naming: symbols appear in order of first use
        uniq = "".join(dict.fromkeys(lhs))
        if uniq != SYMS[: len(uniq)]:
            continue
        for k in range(len(uniq) + 1):
            for out in itertools.permutations(uniq, k):
                out = "".join(out)
                eq = f"{lhs}->{out}"
                for dims in itertools.product(SIZES, repeat=len(uniq)):
                    size = dict(zip(uniq, dims))
                    shp = tuple(size[ix] for ix in lhs)
                    x = rng.integers(-4, 5, size=shp).astype(float)
                    expected = np.einsum(eq, x)
                    ncase += 1
                    try:
                        got = np.asarray(cc.einsum(eq, x, backend="numpy.ma"))
                    except Exception as e:  # noqa: BLE001
                        bad.append((eq, shp, f"raised {type(e).__name__}: {e}"))
                        continue
                    if got.shape != expected.shape:
                        bad.append(
                            (eq, shp, f"shape {got.shape} != {expected.shape}")
                        )
                    elif not np.allclose(got, expected):
                        bad.append((eq, shp, "same shape but wrong values"))

print(f"checked {ncase} one-operand cases, {len(bad)} disagree")
if bad:
    silent = [b for b in bad if b[2].startswith("same shape")]
    for eq, shp, msg in silent[:4] + bad[:4]:
        print(f"  einsum({eq!r}, x) with x.shape={shp}: {msg}")
    print(f"  ({len(silent)} of them silently return wrong values)")
    print("FAIL: cotengra's index/sum/transpose based einsum disagrees with numpy.einsum")
    sys.exit(1)
print("OK")
