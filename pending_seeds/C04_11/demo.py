"""C04 demo: anneal a tree, then slice it - every cost figure and per-node
index set must equal those of a tree rebuilt from (get_path(), sliced_inds).
"""
import sys

import cotengra as ctg


def rebuild(tree):
    new = ctg.ContractionTree.from_path(
        tree.inputs, tree.output, tree.size_dict, path=tree.get_path()
    )
    for ix, si in tree.sliced_inds.items():
        new.remove_ind_(ix, project=si.project)
    return new


def compare(tree, label, index_sets=True):
    ref = rebuild(tree)
    got, exp = tree.contract_stats(), ref.contract_stats()
    if got != exp:
        return f"{label}: contract_stats {got} != rebuilt {exp}"
    for name in ("combo_cost", "peak_size", "contraction_scaling"):
        a, b = getattr(tree, name)(), getattr(ref, name)()
        if a != b:
            return f"{label}: {name} {a} != rebuilt {b}"
    if set(tree.children) != set(ref.children):
        return f"{label}: rebuilt tree has different nodes"
    for node in ref.children:
        for fn in ("get_flops", "get_size"):
            a, b = getattr(tree, fn)(node), getattr(ref, fn)(node)
            if a != b:
                return f"{label}: {fn}({sorted(node)}) {a} != rebuilt {b}"
        for fn in ("get_legs", "get_involved") if index_sets else ():
            a, b = set(getattr(tree, fn)(node)), set(getattr(ref, fn)(node))
            if a != b:
                return (
                    f"{label}: {fn}({sorted(node)}) {sorted(a)} != "
                    f"rebuilt {sorted(b)}"
                )
    return None


def main():
    problems = []
    for seed in range(3):
        inputs, output, _, size_dict = ctg.utils.lattice_equation(
            [4, 4], d_min=2, d_max=4, seed=seed
        )
        tree = ctg.array_contract_tree(
            inputs, output, size_dict, optimize="greedy"
        )
        # a stats query first: this is what a user looking at the tree does
        tree.contract_stats()
        # a short annealing run: a single sweep
        tree.simulated_anneal_(
            tsteps=1, numiter=1, tstart=2.0, tfinal=2.0, seed=seed
        )
        msg = compare(tree, f"seed={seed} after anneal")
        if msg:
            problems.append(msg)
        # now slice each index in turn, and also slice + unslice
        for ix in sorted(size_dict):
            stree = tree.remove_ind(ix)
            msg = compare(
                stree, f"seed={seed} anneal -> slice {ix!r}", index_sets=False
            )
            if msg:
                problems.append(msg)
                break
            utree = stree.restore_ind(ix)
            msg = compare(
                utree,
                f"seed={seed} anneal -> slice+unslice {ix!r}",
                index_sets=False,
            )
            if msg:
                problems.append(msg)
                break

    if problems:
        print("FAIL: incrementally tracked figures differ from a rebuild")
        for msg in problems:
            print("  " + msg)
        return 1
    print("OK: all figures match a from-scratch rebuild")
    return 0


if __name__ == "__main__":
    sys.exit(main())
