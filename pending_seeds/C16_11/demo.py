"""C16 demo: two threads share one ReusableHyperOptimizer whose sub-optimizers
run their trials in a (thread) pool.  Each thread must get back a tree of the
contraction *it* asked about.

The schedule is forced with events (no luck involved):

  * thread B asks about contraction B (8 inputs); its trials are held inside
    the pool until the very end,
  * thread A then asks about contraction A (5 inputs); its first trial finishes
    at once, and A is paused just before it hands out its second trial,
  * B must keep waiting for *its own* trials, A must finish with A's tree, and
    once B's trials are released B must finish with B's tree.

exit 0: both threads got a tree of their own contraction
exit 1: a thread got a tree that belongs to the other query (or crashed/hung)
"""

import sys
import threading
import warnings
from concurrent.futures import ThreadPoolExecutor

import cotengra as ctg
from cotengra.hyperoptimizers.hyper import (
    register_hyper_function,
    register_hyper_optlib,
)
from cotengra.pathfinders.path_greedy import trial_greedy

warnings.simplefilter("ignore")

con_a = ctg.utils.rand_equation(5, 3, n_out=1, seed=11, d_min=2, d_max=3)
con_b = ctg.utils.rand_equation(8, 3, n_out=2, seed=22, d_min=2, d_max=3)
N_A, N_B = len(con_a[0]), len(con_b[0])
assert N_A != N_B

release_b = threading.Event()  # lets B's trials finish
b_returned = threading.Event()  # B's search has returned
b_trials_started = threading.Semaphore(0)


# ---- a trial function whose B-trials are held back inside the pool -------- #
def gated_trial(inputs, output, size_dict, **kwargs):
    if len(inputs) == N_B:
        b_trials_started.release()
        release_b.wait(60)
    return trial_greedy(inputs, output, size_dict)


register_hyper_function("c16-gated", gated_trial, {})


# ---- a trivial 'optlib' that pauses thread A before its second trial ------ #
calls = {}


def lib_init(self, methods, space, **_):
    calls[id(self)] = 0


def lib_get_setting(self):
    calls[id(self)] += 1
    if threading.current_thread().name == "A" and calls[id(self)] == 2:
        # A's first trial is out (and done); wait here a while. Nothing that
        # happens to A's trial in the meantime is any business of thread B.
        b_returned.wait(3.0)
    return {"method": "c16-gated", "params": {}}


def lib_report(*_, **__):
    pass


register_hyper_optlib("c16-lib", lib_init, lib_get_setting, lib_report)

pool = ThreadPoolExecutor(8)
opt = ctg.ReusableHyperOptimizer(
    methods=["c16-gated"],
    optlib="c16-lib",
    max_repeats=2,
    parallel=pool,
    minimize="flops",
)

results = {}


def ask(name, con):
    inputs, output, _, size_dict = con
    try:
        results[name] = opt.search(inputs, output, size_dict)
    except BaseException as e:  # noqa
        results[name] = e
    if name == "B":
        b_returned.set()


tb = threading.Thread(target=ask, args=("B", con_b), name="B")
ta = threading.Thread(target=ask, args=("A", con_a), name="A")

tb.start()
# wait until both of B's trials sit in the pool and B is polling for them
for _ in range(2):
    if not b_trials_started.acquire(timeout=30):
        print("setup problem: B's trials never started")
        sys.exit(2)
threading.Event().wait(0.3)

ta.start()
ta.join(60)
release_b.set()
tb.join(60)
pool.shutdown(wait=False)

if ta.is_alive() or tb.is_alive():
    print("FAIL: a search through the shared optimizer never returned")
    release_b.set()
    import os

    os._exit(1)


def describe(con):
    return f"{len(con[0])} inputs, output {tuple(con[1])}"


bad = False
for name, con in (("A", con_a), ("B", con_b)):
    inputs, output, _, size_dict = con
    res = results.get(name)
    if isinstance(res, BaseException):
        print(f"FAIL: thread {name}'s search raised {type(res).__name__}: {res}")
        bad = True
        continue
    same = (
        res.N == len(inputs)
        and tuple(map(tuple, res.inputs)) == tuple(map(tuple, inputs))
        and tuple(res.output) == tuple(output)
        and all(res.size_dict[ix] == size_dict[ix] for t in inputs for ix in t)
    )
    if not same:
        print(
            f"FAIL: thread {name} asked about a contraction with "
            f"{describe(con)} but was handed a tree with {res.N} inputs, "
            f"output {tuple(res.output)} - the tree of the other thread's query"
        )
        bad = True

if bad:
    sys.exit(1)
print("ok: both threads got a tree of the contraction they asked about")
