"""C18 demo: the score a reusable optimizer stores (and the flops its
random-greedy sub-optimizer reports) must be the cost of the tree built from
the path stored / returned next to it.

One ``ReusableRandomGreedyOptimizer`` is asked about two different networks
with the same number of tensors, the cheap one first.
"""

import math
import sys

import cotengra as ctg


def ring(n, d, chord_d):
    """A ring of ``n`` tensors with bond size ``d`` plus a few chords."""
    inputs = [[] for _ in range(n)]
    size_dict = {}

    def bond(i, j, size):
        ix = f"b{len(size_dict)}"
        size_dict[ix] = size
        inputs[i].append(ix)
        inputs[j].append(ix)

    for i in range(n):
        bond(i, (i + 1) % n, d)
    for i, j in chord_d:
        bond(i, j, chord_d[i, j])
    # an output index on two different tensors (a hyper index)
    size_dict["out"] = 2
    inputs[0].append("out")
    inputs[n // 2].append("out")
    return tuple(map(tuple, inputs)), ("out",), size_dict


def check(opt, name, inputs, output, size_dict):
    path = opt(inputs, output, size_dict)
    key, missing = opt.hash_query(inputs, output, size_dict)
    assert not missing
    con = opt._cache[key]
    assert list(map(tuple, con["path"])) == list(map(tuple, path))

    tree = ctg.ContractionTree.from_path(
        inputs, output, size_dict, path=con["path"]
    )
    actual = tree.contraction_cost(log=10)
    stored = con["score"]
    reported = opt.last_opt.best_flops
    print(
        f"{name}: stored score {stored:.4f}, sub-optimizer best_flops "
        f"{reported:.4f}, log10 flops of the stored path {actual:.4f}"
    )
    bad = []
    if not math.isclose(stored, actual, rel_tol=1e-9):
        bad.append(
            f"{name}: stored score {stored:.4f} is not the cost "
            f"{actual:.4f} of the stored path"
        )
    if not math.isclose(reported, actual, rel_tol=1e-9):
        bad.append(
            f"{name}: reported best_flops {reported:.4f} is not the cost "
            f"{actual:.4f} of the returned path"
        )
    return bad


def main():
    cheap = ring(8, 2, {(0, 4): 2})
    costly = ring(8, 3, {(1, 5): 4, (2, 6): 3, (3, 7): 5})

    bad = []
    # costly first, then cheap
    opt = ctg.ReusableRandomGreedyOptimizer(
        max_repeats=4, seed=7, accel=False, parallel=False
    )
    bad += check(opt, "costly (1st query)", *costly)
    bad += check(opt, "cheap  (2nd query)", *cheap)

    # cheap first, then costly
    opt = ctg.ReusableRandomGreedyOptimizer(
        max_repeats=4, seed=7, accel=False, parallel=False
    )
    bad += check(opt, "cheap  (1st query)", *cheap)
    bad += check(opt, "costly (2nd query)", *costly)

    if bad:
        print("FAIL:")
        for msg in bad:
            print("  " + msg)
        return 1
    print("OK: every stored / reported cost is the cost of the stored path")
    return 0


if __name__ == "__main__":
    sys.exit(main())
