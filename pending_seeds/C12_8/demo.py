"""C12 demo: ncon must give the value of the equivalent einsum, with the open
(negative) labels ordered -1, -2, -3, ... in the result.

Checks a handful of ncon networks against numpy.einsum, including networks with
ten or more open legs.
"""
import sys

import numpy as np

import cotengra as ctg

SYMS = "abcdefghijklmnopqrstuvwxyzABCDEFGHIJKLMNOPQRSTUVWXYZ"


def reference(arrays, indices):
    """Equivalent numpy.einsum: positive labels contracted, negative labels are
    the output in the order -1, -2, -3, ..."""
    labels = sorted({ix for term in indices for ix in term})
    sym = {ix: SYMS[i] for i, ix in enumerate(labels)}
    out = sorted((ix for ix in labels if ix < 0), reverse=True)
    eq = ",".join("".join(sym[ix] for ix in term) for term in indices)
    eq += "->" + "".join(sym[ix] for ix in out)
    return np.einsum(eq, *arrays)


def make_case(rng, n_open, n_tensors, n_bonds):
    """Random ncon network: ``n_open`` open legs -1..-n_open scattered over
    ``n_tensors`` tensors joined by ``n_bonds`` positive bonds."""
    terms = [[] for _ in range(n_tensors)]
    sizes = {}
    # a chain of bonds keeps everything connected, extras placed at random
    for b in range(1, n_bonds + 1):
        if b < n_tensors:
            i, j = b - 1, b
        else:
            i, j = rng.choice(n_tensors, size=2, replace=False)
        terms[i].append(b)
        terms[j].append(b)
        sizes[b] = int(rng.integers(2, 4))
    for o in rng.permutation(np.arange(1, n_open + 1)):
        terms[int(rng.integers(n_tensors))].append(-int(o))
        sizes[-int(o)] = int(rng.integers(2, 4))
    terms = [list(rng.permutation(t)) for t in terms]
    terms = [[int(ix) for ix in t] for t in terms]
    arrays = [rng.normal(size=[sizes[ix] for ix in t]) for t in terms]
    return arrays, terms


def main():
    rng = np.random.default_rng(12)
    failures = []
    for n_open, n_tensors, n_bonds in [
        (2, 2, 1),
        (3, 3, 3),
        (5, 3, 2),
        (9, 4, 4),
        (10, 2, 1),
        (11, 3, 3),
        (12, 4, 5),
    ]:
        arrays, terms = make_case(rng, n_open, n_tensors, n_bonds)
        expected = reference(arrays, terms)
        got = np.asarray(ctg.ncon(arrays, terms))
        if got.shape != expected.shape:
            failures.append(
                f"ncon with {n_open} open legs {terms}: shape {got.shape}, "
                f"equivalent einsum gives {expected.shape}"
            )
        elif not np.allclose(got, expected):
            failures.append(
                f"ncon with {n_open} open legs {terms}: values differ from "
                f"equivalent einsum, max abs err "
                f"{np.abs(got - expected).max():.3g}"
            )

    # all dimensions equal: the wrong axis order can not show up in the shape
    x = rng.normal(size=(2,) * 7)
    y = rng.normal(size=(2,) * 6)
    terms = [[-1, -2, -3, -4, -5, -6, 1], [1, -7, -8, -9, -10, -11]]
    expected = np.tensordot(x, y, axes=1)
    got = np.asarray(ctg.ncon([x, y], terms))
    if got.shape != expected.shape or not np.allclose(got, expected):
        failures.append(
            "ncon [[-1..-6, 1], [1, -7..-11]] (all dims 2) is not "
            "tensordot(x, y, 1): max abs err "
            f"{np.abs(got - expected).max():.3g}"
        )

    if failures:
        print("C12 VIOLATED: ncon does not match the equivalent einsum")
        for f in failures:
            print(" -", f)
        return 1
    print("ok: ncon matches numpy.einsum on all cases")
    return 0


if __name__ == "__main__":
    sys.exit(main())
