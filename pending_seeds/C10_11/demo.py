"""C10 demo: tree -> linear / SSA path -> tree must round trip for every
network and every admissible traversal order (dfs, surface, callables),
including the smallest networks (one or two tensors)."""
import sys
import warnings

import cotengra as ctg

warnings.simplefilter("ignore")


def orders(tree):
    return {
        "default": None,
        "dfs": "dfs",
        "callable:len": len,
        "callable:-min": lambda node: -min(node),
        "callable:size": tree.get_size,
    }


def check_tree(name, tree, problems):
    N = tree.N
    for oname, order in orders(tree).items():
        tag = f"{name} [{type(tree).__name__}, order={oname}]"
        try:
            path = tree.get_path(order=order)
            ssa_path = tree.get_ssa_path(order=order)
            steps = list(tree.traverse(order=order))
        except Exception as e:  # noqa
            problems.append(f"{tag}: {type(e).__name__}: {e!r}")
            continue
        if len(path) != N - 1 or len(ssa_path) != N - 1 or len(steps) != N - 1:
            problems.append(f"{tag}: expected {N - 1} steps, got {path}")
            continue
        # children before parents
        done = set(tree.gen_leaves())
        for p, l, r in steps:
            if l not in done or r not in done:
                problems.append(f"{tag}: parent emitted before child")
                break
            done.add(p)
        # linear <-> ssa agree
        if [sorted(c) for c in ctg.ssa_to_linear(ssa_path, N)] != [
            sorted(c) for c in path
        ]:
            problems.append(f"{tag}: linear and ssa paths disagree")
        # back to a tree
        for kw in ({"path": path}, {"ssa_path": ssa_path}):
            t2 = type(tree).from_path(
                tree.inputs, tree.output, tree.size_dict, **kw
            )
            if set(t2.children) != set(tree.children):
                problems.append(f"{tag}: round trip via {list(kw)[0]} differs")


problems = []
cases = {
    "1 tensor": (["ab"], "ab", {"a": 2, "b": 3}, ()),
    "1 tensor (trace)": (["aab"], "b", {"a": 2, "b": 3}, ()),
    "2 tensors": (["ab", "bc"], "ac", {"a": 2, "b": 3, "c": 2}, ((0, 1),)),
    "3 tensors": (
        ["ab", "bc", "cd"],
        "ad",
        {"a": 2, "b": 3, "c": 2, "d": 2},
        ((1, 2), (0, 1)),
    ),
}
for name, (inputs, output, size_dict, path) in cases.items():
    for cls in (ctg.ContractionTree, ctg.ContractionTreeCompressed):
        tree = cls.from_path(inputs, output, size_dict, path=path)
        check_tree(name, tree, problems)
        try:
            tcopy = tree.copy()
        except Exception as e:  # noqa
            problems.append(f"{name} [{cls.__name__}]: copy(): {e!r}")
        else:
            check_tree(name + " (copy)", tcopy, problems)

for seed in range(3):
    con = ctg.utils.rand_equation(8, 3, seed=seed)
    tree = ctg.array_contract_tree(
        con.inputs, con.output, con.size_dict, optimize="greedy"
    )
    check_tree(f"rand seed={seed}", tree, problems)
    ctree = ctg.ContractionTreeCompressed.from_path(
        con.inputs, con.output, con.size_dict, path=tree.get_path()
    )
    check_tree(f"rand seed={seed}", ctree, problems)

if problems:
    print(f"C10 VIOLATED: {len(problems)} tree -> path conversions failed")
    for p in problems[:6]:
        print("  ", p)
    sys.exit(1)
print("ok: all tree <-> path round trips hold")
