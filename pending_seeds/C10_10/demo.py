"""C10 demo: an edge path (any order of the indices) must convert to a valid
SSA / linear path contracting exactly the tensors that carry each index at
that moment -- also for networks where a tensor carries an index twice
(traces / diagonals such as 'aab')."""
import itertools
import sys
import warnings

import cotengra as ctg
from cotengra.pathfinders.path_basic import (
    edge_path_to_linear,
    edge_path_to_ssa,
    ssa_to_linear,
)

warnings.simplefilter("ignore")


def reference_ssa(edge_path, inputs):
    """Independent, naive simulation of index elimination."""
    live = {i: set(t) for i, t in enumerate(inputs)}
    nxt = len(inputs)
    out = []
    for ix in edge_path:
        grp = sorted(i for i, t in live.items() if ix in t)
        for t in live.values():
            t.discard(ix)
        if len(grp) < 2:
            continue
        new = set()
        for i in grp:
            new |= live.pop(i)
        live[nxt] = new
        out.append(tuple(grp))
        nxt += 1
    return tuple(out)


NETWORKS = [
    # (inputs, output)
    (("ab", "bc", "ca"), ""),  # plain triangle (control)
    (("aab", "bc", "ca"), ""),  # tensor 0 carries 'a' twice
    (("abb", "bcd", "dc", "ae"), "e"),  # 'b' twice on tensor 0
    ((("x", "x", "y"), ("y", "z"), ("z", "x", "w"), ("w",)), ()),
]

problems = []
ncheck = 0
for inputs, output in NETWORKS:
    inds = sorted({ix for t in inputs for ix in t})
    size_dict = {ix: 2 for ix in inds}
    for edge_path in itertools.permutations(inds):
        ncheck += 1
        want = reference_ssa(edge_path, inputs)
        try:
            got = tuple(tuple(sorted(s)) for s in edge_path_to_ssa(edge_path, inputs))
            if got != want:
                problems.append(
                    f"{inputs} edge_path={edge_path}: ssa path {got} != {want}"
                )
                continue
            lin = edge_path_to_linear(edge_path, inputs)
            if [sorted(c) for c in lin] != [
                sorted(c) for c in ssa_to_linear(want, len(inputs))
            ]:
                problems.append(f"{inputs} edge_path={edge_path}: bad linear path")
                continue
            tree = ctg.ContractionTree.from_path(
                inputs, output, size_dict, edge_path=edge_path, autocomplete=True
            )
            ref = ctg.ContractionTree.from_path(
                inputs, output, size_dict, ssa_path=want, autocomplete=True
            )
            if not tree.is_complete() or set(tree.children) != set(ref.children):
                problems.append(f"{inputs} edge_path={edge_path}: wrong tree")
        except Exception as e:  # noqa
            problems.append(
                f"{inputs} edge_path={edge_path}: {type(e).__name__}: {e}"
            )

if problems:
    print(f"C10 VIOLATED: {len(problems)} of {ncheck} edge paths failed to convert")
    for p in problems[:5]:
        print("  ", p)
    sys.exit(1)

print(f"ok: all {ncheck} edge paths convert to valid paths")
