"""C01 demo: a scalar operand (0-d input, or a disconnected part that has been
contracted to a number) must not stop a pairwise step from putting its result
into the index order the tree declares for it.

Exits 0 if every (tree, option) combination reproduces numpy.einsum, 1 otherwise.
"""
import itertools
import sys

import numpy as np

import cotengra as ctg

CASES = [
    # (inputs, output, sizes, ssa_path)
    # closed loop ab,ba -> number, which then scales cd, declared output 'dc'
    (("ab", "ba", "cd"), "dc", dict(a=2, b=3, c=2, d=3), [(0, 1), (3, 2)]),
    # same with c == d: the shape is right, only the values can tell
    (("ab", "ba", "cd"), "dc", dict(a=2, b=3, c=3, d=3), [(0, 1), (3, 2)]),
    # a 0-d input tensor times a rank 3 tensor, cyclically permuted output
    (("", "abc"), "cab", dict(a=2, b=3, c=4), [(0, 1)]),
    # number * (matrix product), output transposed
    (("a", "a", "bc", "cd"), "db", dict(a=3, b=2, c=3, d=4), [(0, 1), (2, 3), (4, 5)]),
    # controls without any scalar operand
    (("ab", "bc"), "ca", dict(a=2, b=3, c=4), [(0, 1)]),
    (("ab", "cd"), "dbca", dict(a=2, b=3, c=2, d=3), [(0, 1)]),
]


def main():
    rng = np.random.default_rng(7)
    bad = []
    total = 0
    for inputs, output, sizes, ssa_path in CASES:
        inputs = tuple(map(tuple, inputs))
        output = tuple(output)
        arrays = [rng.normal(size=[sizes[ix] for ix in t]) for t in inputs]
        eq = ",".join("".join(t) for t in inputs) + "->" + "".join(output)
        expected = np.einsum(eq, *arrays)

        for sort in (None, "flops", "leaves"):
            tree = ctg.ContractionTree.from_path(
                inputs, output, sizes, ssa_path=ssa_path
            )
            if sort is not None:
                tree.sort_contraction_indices(sort)
            for order, prefer_einsum, impl in itertools.product(
                ("dfs", len), (False, True), ("auto", "cotengra", "autoray")
            ):
                total += 1
                what = (
                    f"{eq} path={ssa_path} sort={sort} order="
                    f"{getattr(order, '__name__', order)} "
                    f"prefer_einsum={prefer_einsum} implementation={impl}"
                )
                try:
                    x = tree.contract(
                        arrays,
                        order=order,
                        prefer_einsum=prefer_einsum,
                        implementation=impl,
                    )
                except Exception as e:  # noqa
                    bad.append(f"{what}: raised {type(e).__name__}: {e}")
                    continue
                if np.shape(x) != expected.shape:
                    bad.append(
                        f"{what}: shape {np.shape(x)} != declared "
                        f"{expected.shape}"
                    )
                elif not np.allclose(x, expected):
                    bad.append(
                        f"{what}: right shape, values differ from einsum "
                        f"(max err {np.abs(x - expected).max():.3g})"
                    )

    if bad:
        print(f"C01 VIOLATED in {len(bad)} of {total} combinations:")
        for line in bad[:12]:
            print("  ", line)
        if len(bad) > 12:
            print("   ...")
        return 1
    print(f"ok: all {total} combinations match numpy.einsum")
    return 0


if __name__ == "__main__":
    sys.exit(main())
