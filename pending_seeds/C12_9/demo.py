"""C12 demo: ctg.einsum must return the same array as numpy.einsum for every
operand shape numpy accepts - including operands that have dimensions of
size 1 (e.g. a leading batch axis of length one, MPS boundary bonds).

Sweeps a list of equations, putting size-1 dimensions on every choice of up to
two indices, and compares with numpy.einsum.
"""
import itertools
import sys

import numpy as np

import cotengra as ctg

EQS = [
    "ab,bc->ac",
    "ab,bc",
    "xab,bc->xac",
    "xab,xbc->xac",
    "abx,bc->xac",
    "ab,bcx->axc",
    "xab,bc->axc",
    "abc,bcd->ad",
    "abc,abd->acd",
    "xab,bcy->xyac",
    "ab,bc,cd->ad",
    "xab,bc,cd->xad",
    "xab,xbc,xcd->xad",
    "a,b->ab",
    "ab,ab->ab",
    "...ab,...bc->...ac",
    "...ab,bc",
]


def shapes_for(eq, size_dict, n_ell):
    lhs = eq.split("->")[0]
    shapes = []
    for term in lhs.split(","):
        shape = []
        if term.startswith("..."):
            shape.extend(size_dict["..."][:n_ell])
            term = term[3:]
        shape.extend(size_dict[ix] for ix in term)
        shapes.append(tuple(shape))
    return shapes


def main():
    rng = np.random.default_rng(9)
    failures = []
    ncases = 0
    for eq in EQS:
        lhs = eq.split("->")[0]
        inds = sorted(set(lhs) - set(",."))
        has_ell = "..." in eq
        for k in range(0, 3):
            for ones in itertools.combinations(inds, k):
                size_dict = {
                    ix: (1 if ix in ones else 2 + (i % 4))
                    for i, ix in enumerate(inds)
                }
                for ell in ([(1,), (3,), (1, 2)] if has_ell else [()]):
                    size_dict["..."] = ell
                    shapes = shapes_for(eq, size_dict, len(ell))
                    arrays = [rng.normal(size=s) for s in shapes]
                    expected = np.einsum(eq, *arrays)
                    ncases += 1
                    try:
                        got = np.asarray(ctg.einsum(eq, *arrays))
                    except Exception as e:  # noqa
                        failures.append(
                            f"{eq!r} shapes {shapes}: raised "
                            f"{type(e).__name__}: {e}"
                        )
                        continue
                    if got.shape != expected.shape:
                        failures.append(
                            f"{eq!r} shapes {shapes}: numpy shape "
                            f"{expected.shape}, cotengra shape {got.shape}"
                        )
                    elif not np.allclose(got, expected):
                        failures.append(
                            f"{eq!r} shapes {shapes}: values differ, max abs "
                            f"err {np.abs(got - expected).max():.3g}"
                        )

    if failures:
        print(
            f"C12 VIOLATED: {len(failures)} of {ncases} einsum calls with "
            "size-1 dimensions differ from numpy.einsum, e.g."
        )
        for f in failures[:12]:
            print(" -", f)
        return 1
    print(f"ok: all {ncases} einsum calls match numpy.einsum")
    return 0


if __name__ == "__main__":
    sys.exit(main())
