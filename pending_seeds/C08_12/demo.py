"""C08 demo: a hyper-optimizer search runs no more trials than requested, also
when it continues after an earlier search on the same optimizer was aborted.

Scenario (thread pool, ``on_trial_error='raise'``):

1. ``search`` is started with ``max_repeats=6``.  All six trials are dispatched
   to the pool; one of them raises, the error propagates out of ``search``
   (exactly what also happens on a ``KeyboardInterrupt``) while the other
   dispatched trials are still in flight.
2. the user catches the error and calls ``search`` again on the same optimizer
   to carry on.  This is a request for at most ``max_repeats`` further trials.

After step 2 we check that no more than ``max_repeats`` new trials were
recorded, that the returned trial is the arg-min of all recorded scores and
that its recorded figures are those of the returned tree.  The same is done
serially as a control.
"""

import sys
import threading
import warnings

import cotengra as ctg
from cotengra.hyperoptimizers.hyper import register_hyper_function
from cotengra.pathfinders.path_greedy import trial_greedy

warnings.filterwarnings("ignore")

_lock = threading.Lock()
_state = {"calls": 0, "boom_at": None}


def trial_flaky(inputs, output, size_dict, **kwargs):
    """Greedy, but the ``boom_at``-th call (if armed) raises."""
    with _lock:
        _state["calls"] += 1
        boom = _state["calls"] == _state["boom_at"]
    if boom:
        raise RuntimeError("simulated trial crash")
    return trial_greedy(inputs, output, size_dict, **kwargs)


register_hyper_function(
    name="flaky-greedy",
    ssa_func=trial_flaky,
    space={
        "random_strength": {"type": "FLOAT_EXP", "min": 0.001, "max": 1.0},
        "temperature": {"type": "FLOAT_EXP", "min": 0.001, "max": 1.0},
        "costmod": {"type": "FLOAT", "min": 0.1, "max": 4.0},
    },
)


def fail(msg):
    print("C08 VIOLATION:", msg)
    sys.exit(1)


inputs, output, _, size_dict = ctg.utils.rand_equation(
    40, reg=3, seed=3, d_max=3
)
REPEATS = 6

for parallel in (False, "threads"):
    _state["calls"] = 0
    _state["boom_at"] = 3

    opt = ctg.HyperOptimizer(
        methods=["flaky-greedy"],
        max_repeats=REPEATS,
        parallel=parallel,
        optlib="random",
        seed=42,
        on_trial_error="raise",
    )

    # 1. the aborted search
    try:
        opt.search(inputs, output, size_dict)
    except RuntimeError as e:
        print(f"parallel={parallel!r}: first search aborted ({e})")
    else:
        fail("the simulated crash did not abort the first search")
    done = len(opt.scores)
    if done > REPEATS:
        fail(f"aborted search recorded {done} > {REPEATS} trials")

    # 2. carry on with the same optimizer
    _state["boom_at"] = None
    tree = opt.search(inputs, output, size_dict)
    new = len(opt.scores) - done
    print(
        f"parallel={parallel!r}: {done} trials recorded before the abort, "
        f"continued search recorded {new} new trials (requested {REPEATS})"
    )
    if new > REPEATS:
        fail(
            f"parallel={parallel!r}: continued search ran {new} trials but "
            f"only max_repeats={REPEATS} were requested"
        )
    if not tree.is_complete():
        fail("returned tree is not complete")
    if opt.best["score"] != min(opt.scores):
        fail("best is not the arg-min of the recorded scores")
    i = opt.scores.index(min(opt.scores))
    true = tree.contract_stats(force=True)
    rec = {k: opt.best[k] for k in ("flops", "write", "size")}
    lst = {
        "flops": opt.costs_flops[i],
        "write": opt.costs_write[i],
        "size": opt.costs_size[i],
    }
    if rec != true or lst != true:
        fail(f"recorded {rec} / {lst} differ from the tree's {true}")

print("OK")
