"""C07 demo: the (size, total flops, nslices) the slice finder predicts for
the index set it returns must equal those of the tree actually sliced on
those indices.

Needs a network in which an *input* tensor is larger than every intermediate
of the sliced contraction: a big central tensor whose legs are each closed off
by a small vector / matrix, so that every contraction only ever shrinks it.
"""
import sys

import cotengra as ctg


def star_network(nlegs=6, d=4):
    legs = [ctg.get_symbol(i) for i in range(nlegs)]
    inputs = [tuple(legs)]
    size_dict = {ix: d for ix in legs}
    for i, ix in enumerate(legs):
        if i % 2:
            # a matrix followed by a vector
            jx = ctg.get_symbol(nlegs + i)
            size_dict[jx] = 2
            inputs.append((ix, jx))
            inputs.append((jx,))
        else:
            inputs.append((ix,))
    return inputs, (), size_dict


def check(tree, label, max_repeats=8, **sf_opts):
    sf = ctg.SliceFinder(tree, **sf_opts)
    ix_sl, cost = sf.search(max_repeats)

    sliced = tree
    for ix in sorted(ix_sl):
        sliced = sliced.remove_ind(ix)

    # n.b. the finder counts slices 'on top of' those the tree already has
    base = tree.nslices
    predicted = (cost.size, base * cost.total_flops, base * cost.nslices)
    actual = (sliced.max_size(), sliced.contraction_cost(), sliced.nslices)
    if predicted != actual:
        print(
            f"FAIL [{label}]: slicing {sorted(ix_sl)} predicted "
            f"(size, total flops, nslices)={predicted} but the tree sliced "
            f"on them has {actual}"
        )
        return False
    return True


def main():
    ok = True

    inputs, output, size_dict = star_network()
    tree = ctg.array_contract_tree(
        inputs, output, size_dict, optimize="greedy"
    )
    W = tree.max_size()
    for kind, opts in [
        ("target_size", {"target_size": W // 16}),
        ("target_slices", {"target_slices": 16}),
        ("target_overhead", {"target_overhead": 1.5}),
    ]:
        ok &= check(tree, f"star {kind}", seed=0, **opts)

    # and once more on the tree already sliced once
    tree1 = tree.slice(target_slices=4, seed=1)
    ok &= check(tree1, "star presliced", seed=2, target_slices=4)

    if not ok:
        sys.exit(1)
    print("OK: predicted costs match the sliced trees")


if __name__ == "__main__":
    main()
