"""C09 demo: the 'optimal' pathfinder must return a tree of minimum objective
value - over *all* binary trees when ``search_outer=True``.  The networks below
have nothing to pre-simplify and are built so that the best tree contains an
outer product (small vectors hanging off one big tensor).  Every result, for
all six objectives, both ``search_outer`` settings and two initial cost caps,
is compared with an independent enumeration of all binary contraction trees.
"""
import itertools
import math
import sys

import cotengra.pathfinders.path_basic as pb

OBJECTIVES = ["flops", "size", "write", "max", "combo-4", "limit-4"]


def all_trees(items):
    if len(items) == 1:
        yield items[0]
        return
    first, rest = items[0], items[1:]
    for r in range(len(rest)):
        for comb in itertools.combinations(rest, r):
            left = [first, *comb]
            right = [x for x in rest if x not in comb]
            for tl in all_trees(left):
                for tr in all_trees(right):
                    yield (tl, tr)


def score_tree(tree, inputs, output, size_dict, objective, outer_ok):
    n = len(inputs)
    name, _, k = objective.partition("-")
    k = float(k) if k else 64.0
    steps = []
    ok = [True]

    def rec(t):
        if isinstance(t, int):
            return frozenset([t]), frozenset(inputs[t])
        (sa, la), (sb, lb) = rec(t[0]), rec(t[1])
        if not (la & lb) and not outer_ok:
            ok[0] = False
        s = sa | sb
        outside = set(output)
        for j in range(n):
            if j not in s:
                outside.update(inputs[j])
        union = la | lb
        res = frozenset(ix for ix in union if ix in outside)
        steps.append(
            (
                math.prod(size_dict[ix] for ix in union),
                math.prod(size_dict[ix] for ix in res),
            )
        )
        return s, res

    rec(tree)
    if not ok[0]:
        return None
    return {
        "flops": lambda: sum(f for f, _ in steps),
        "size": lambda: max(z for _, z in steps),
        "write": lambda: sum(z for _, z in steps),
        "max": lambda: max(f for f, _ in steps),
        "combo": lambda: sum(f + k * z for f, z in steps),
        "limit": lambda: sum(max(f, k * z) for f, z in steps),
    }[name]()


def path_to_tree(path, n):
    terms = list(range(n))
    for con in path:
        a, b = sorted(con, reverse=True)
        ta = terms.pop(a)
        tb = terms.pop(b)
        terms.append((tb, ta))
    (tree,) = terms
    return tree


def brute_min(inputs, output, size_dict, objective, outer_ok):
    scores = (
        score_tree(t, inputs, output, size_dict, objective, outer_ok)
        for t in all_trees(list(range(len(inputs))))
    )
    return min(s for s in scores if s is not None)


CASES = [
    # two vectors on one rank-3 tensor: (A x B) . C beats A . (B . C)
    ([("i",), ("j",), ("i", "j", "k")], ("k",), {"i": 2, "j": 2, "k": 8}),
    # the same with the vectors being intermediates themselves
    (
        [("a",), ("a", "i"), ("c",), ("c", "j"), ("i", "j", "l")],
        ("l",),
        {"a": 3, "c": 3, "i": 2, "j": 2, "l": 9},
    ),
    # three vectors on a rank-4 tensor
    (
        [("i",), ("j",), ("k",), ("i", "j", "k", "l")],
        ("l",),
        {"i": 2, "j": 2, "k": 2, "l": 20},
    ),
    # control: a plain ring, no outer product is useful
    (
        [("a", "b"), ("b", "c"), ("c", "d"), ("d", "a", "e")],
        ("e",),
        {"a": 2, "b": 3, "c": 4, "d": 5, "e": 2},
    ),
]

bad = []
for inputs, output, size_dict in CASES:
    n = len(inputs)
    for objective in OBJECTIVES:
        for search_outer in (False, True):
            for cost_cap in (2, 1000):
                path = pb.optimize_optimal(
                    inputs,
                    output,
                    size_dict,
                    minimize=objective,
                    search_outer=search_outer,
                    cost_cap=cost_cap,
                )
                got = score_tree(
                    path_to_tree(path, n),
                    inputs,
                    output,
                    size_dict,
                    objective,
                    True,
                )
                want = brute_min(
                    inputs, output, size_dict, objective, search_outer
                )
                if got != want:
                    bad.append(
                        (inputs, output, objective, search_outer, cost_cap,
                         path, got, want)
                    )

if bad:
    print(f"optimal finder returned {len(bad)} non-optimal paths, e.g.:")
    for b in bad[:4]:
        print(
            "  inputs={} output={} minimize={} search_outer={} cost_cap={}\n"
            "    path={} has objective {} but the best tree has {}".format(*b)
        )
    sys.exit(1)

print("all optimal paths match exhaustive enumeration")
