"""C01 demo: contracting through a tree must give the einsum value for complex
arrays as well - einsum never conjugates an operand.

Every network below is contracted with real and with complex arrays, through a
fixed tree, under all option combinations, and compared with numpy.einsum.
Exits 0 if everything matches, 1 otherwise.
"""
import itertools
import sys

import numpy as np

import cotengra as ctg

CASES = [
    # (inputs, output, sizes, ssa_path)
    # plain inner product of two identically laid out tensors
    (("ab", "ab"), "", dict(a=2, b=3), [(0, 1)]),
    (("abc", "abc"), "", dict(a=2, b=3, c=2), [(0, 1)]),
    # closed ring: the last step is 'xy,xy->' or 'xy,yx->' depending on the
    # explicit index orders
    (("ab", "bc", "ca"), "", dict(a=2, b=3, c=4), [(0, 1), (3, 2)]),
    # norm-like network <x|A|y>, last step joins two vectors
    (("a", "ab", "bc", "c"), "", dict(a=3, b=2, c=3), [(0, 1), (2, 3), (4, 5)]),
    # inner product as an intermediate that rescales an open tensor
    (("ab", "ab", "cd"), "dc", dict(a=2, b=2, c=2, d=3), [(0, 1), (3, 2)]),
    # traces first, then 'a,a->'
    (("aa", "aa"), "", dict(a=3), [(0, 1)]),
    # control: same layout but an index is kept, and a transposed partner
    (("ab", "ab"), "a", dict(a=2, b=3), [(0, 1)]),
    (("ab", "ba"), "", dict(a=2, b=3), [(0, 1)]),
]


def main():
    rng = np.random.default_rng(11)
    bad = []
    total = 0
    for (inputs, output, sizes, ssa_path), cplx in itertools.product(
        CASES, (False, True)
    ):
        inputs = tuple(map(tuple, inputs))
        output = tuple(output)
        arrays = []
        for t in inputs:
            shp = [sizes[ix] for ix in t]
            x = rng.normal(size=shp)
            if cplx:
                x = x + 1j * rng.normal(size=shp)
            arrays.append(x)
        eq = ",".join("".join(t) for t in inputs) + "->" + "".join(output)
        expected = np.einsum(eq, *arrays)

        for sort in (None, "flops", "root"):
            tree = ctg.ContractionTree.from_path(
                inputs, output, sizes, ssa_path=ssa_path
            )
            if sort is not None:
                tree.sort_contraction_indices(sort)
            for order, prefer_einsum, impl in itertools.product(
                ("dfs", len), (False, True), ("auto", "cotengra", "autoray")
            ):
                total += 1
                what = (
                    f"{eq} {'complex' if cplx else 'real'} sort={sort} order="
                    f"{getattr(order, '__name__', order)} "
                    f"prefer_einsum={prefer_einsum} implementation={impl}"
                )
                try:
                    x = tree.contract(
                        arrays,
                        order=order,
                        prefer_einsum=prefer_einsum,
                        implementation=impl,
                    )
                except Exception as e:  # noqa
                    bad.append(f"{what}: raised {type(e).__name__}: {e}")
                    continue
                if np.shape(x) != expected.shape:
                    bad.append(
                        f"{what}: shape {np.shape(x)} != {expected.shape}"
                    )
                elif not np.allclose(x, expected):
                    bad.append(
                        f"{what}: got {np.asarray(x).ravel()[0]:.4f}, einsum "
                        f"gives {expected.ravel()[0]:.4f}"
                    )

    if bad:
        print(f"C01 VIOLATED in {len(bad)} of {total} combinations:")
        for line in bad[:12]:
            print("  ", line)
        if len(bad) > 12:
            print("   ...")
        return 1
    print(f"ok: all {total} combinations match numpy.einsum")
    return 0


if __name__ == "__main__":
    sys.exit(main())
