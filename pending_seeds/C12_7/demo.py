"""C12 demo: '...' broadcasting when the operands' ellipses cover a different
number of leading dimensions. numpy aligns the broadcast dimensions to the
right for every operand, whatever the order of the operands."""
import sys

import numpy as np

import cotengra as ctg

rng = np.random.default_rng(12007)

cases = [
    # an operand with a *shorter* (but non-empty) ellipsis comes first
    ("...a,...a->...", [(3, 4), (3, 3, 4)]),
    ("...a,...a->...", [(3, 4), (2, 3, 4)]),
    ("...a,...ab", [(3, 4), (5, 3, 4, 2)]),
    ("a...,b...,c...->...abc", [(2, 3), (3, 4, 3), (4, 3)]),
    ("x...,...y,...->y...x", [(2, 4), (3, 4, 5), (2, 3, 4)]),
    # interleaved form of the same thing
    ("interleaved", None),
    # controls: longer ellipsis first / equal lengths / empty ellipsis first
    ("...a,...a->...", [(3, 3, 4), (3, 4)]),
    ("...a,...a->...", [(2, 3, 4), (2, 3, 4)]),
    ("...,...ab->ba...", [(), (2, 3, 4, 5)]),
]

bad = []
for eq, shapes in cases:
    if eq == "interleaved":
        x = rng.normal(size=(3, 4))
        y = rng.normal(size=(3, 3, 4))
        args = (x, [..., 0], y, [..., 0], [...])
    else:
        args = (eq, *(rng.normal(size=s) for s in shapes))
    expected = np.einsum(*args)
    try:
        got = np.asarray(ctg.einsum(*args))
    except Exception as e:  # noqa
        bad.append(f"{eq!r} {shapes}: raised {e!r}")
        continue
    if got.shape != expected.shape:
        bad.append(
            f"{eq!r} {shapes}: numpy shape {expected.shape}, "
            f"cotengra shape {got.shape}"
        )
    elif not np.allclose(got, expected):
        bad.append(
            f"{eq!r} {shapes}: values differ from numpy.einsum "
            f"(max abs err {np.abs(got - expected).max():.3g})"
        )

if bad:
    print("FAIL: cotengra.einsum disagrees with numpy.einsum on '...' broadcasting")
    for b in bad:
        print("  ", b)
    sys.exit(1)

print("OK: all ellipsis broadcasting cases match numpy.einsum")
