"""C09 demo: the 'optimal' pathfinder must return a tree of minimum objective
value for every supported objective, whatever was asked of it earlier in the
same process.

For a few small networks (nothing to pre-simplify) every objective is
requested in turn - including the weighted objectives first with a custom
factor ('combo-1', 'limit-1') and afterwards with their default factor
('combo', 'limit' == factor 64) - and every result is compared with an
independent enumeration of all binary contraction trees.
"""
import itertools
import math
import sys

import cotengra.pathfinders.path_basic as pb

# order matters: custom-factor requests come before the default-factor ones
OBJECTIVES = [
    "flops", "size", "write", "max", "combo-1", "limit-1", "combo", "limit",
]


def all_trees(items):
    if len(items) == 1:
        yield items[0]
        return
    first, rest = items[0], items[1:]
    for r in range(len(rest)):
        for comb in itertools.combinations(rest, r):
            left = [first, *comb]
            right = [x for x in rest if x not in comb]
            for tl in all_trees(left):
                for tr in all_trees(right):
                    yield (tl, tr)


def score_tree(tree, inputs, output, size_dict, objective, outer_ok):
    n = len(inputs)
    name, _, k = objective.partition("-")
    k = float(k) if k else 64.0
    steps = []
    ok = [True]

    def rec(t):
        if isinstance(t, int):
            return frozenset([t]), frozenset(inputs[t])
        (sa, la), (sb, lb) = rec(t[0]), rec(t[1])
        if not (la & lb) and not outer_ok:
            ok[0] = False
        s = sa | sb
        outside = set(output)
        for j in range(n):
            if j not in s:
                outside.update(inputs[j])
        union = la | lb
        res = frozenset(ix for ix in union if ix in outside)
        steps.append(
            (
                math.prod(size_dict[ix] for ix in union),
                math.prod(size_dict[ix] for ix in res),
            )
        )
        return s, res

    rec(tree)
    if not ok[0]:
        return None
    return {
        "flops": lambda: sum(f for f, _ in steps),
        "size": lambda: max(z for _, z in steps),
        "write": lambda: sum(z for _, z in steps),
        "max": lambda: max(f for f, _ in steps),
        "combo": lambda: sum(f + k * z for f, z in steps),
        "limit": lambda: sum(max(f, k * z) for f, z in steps),
    }[name]()


def path_to_tree(path, n):
    terms = list(range(n))
    for con in path:
        a, b = sorted(con, reverse=True)
        ta = terms.pop(a)
        tb = terms.pop(b)
        terms.append((tb, ta))
    (tree,) = terms
    return tree


def brute_min(inputs, output, size_dict, objective, outer_ok):
    scores = (
        score_tree(t, inputs, output, size_dict, objective, outer_ok)
        for t in all_trees(list(range(len(inputs))))
    )
    return min(s for s in scores if s is not None)


CASES = [
    # chain  b - ab - ac - c
    (
        [("a", "b"), ("b",), ("a", "c"), ("c",)],
        (),
        {"a": 7, "b": 2, "c": 3},
    ),
    (
        [("b", "c", "d", "e"), ("b",), ("a", "d", "e"), ("a", "c")],
        (),
        {"a": 4, "b": 2, "c": 6, "d": 3, "e": 6},
    ),
    (
        [("b", "f"), ("a", "c", "d"), ("a", "b", "c", "e"), ("d", "f")],
        ("e",),
        {"a": 3, "b": 4, "c": 7, "d": 3, "e": 4, "f": 5},
    ),
    (
        [
            ("a", "b", "d", "g", "h", "j"),
            ("e", "g", "i"),
            ("a", "c", "f", "i", "j"),
            ("d", "e", "f", "j"),
            ("h",),
        ],
        ("b", "c", "d"),
        {"a": 6, "b": 6, "c": 2, "d": 6, "e": 2, "f": 3, "g": 4, "h": 4,
         "i": 4, "j": 6},
    ),
]

bad = []
for inputs, output, size_dict in CASES:
    n = len(inputs)
    for objective in OBJECTIVES:
        for search_outer in (False, True):
            for cost_cap in (2, 1000):
                path = pb.optimize_optimal(
                    inputs,
                    output,
                    size_dict,
                    minimize=objective,
                    search_outer=search_outer,
                    cost_cap=cost_cap,
                )
                got = score_tree(
                    path_to_tree(path, n),
                    inputs,
                    output,
                    size_dict,
                    objective,
                    True,
                )
                want = brute_min(
                    inputs, output, size_dict, objective, search_outer
                )
                if got != want:
                    bad.append(
                        (inputs, output, objective, search_outer, cost_cap,
                         path, got, want)
                    )

if bad:
    print(f"optimal finder returned {len(bad)} non-optimal paths, e.g.:")
    for b in bad[:4]:
        print(
            "  inputs={} output={} minimize={} search_outer={} cost_cap={}\n"
            "    path={} has objective {} but the best tree has {}".format(*b)
        )
    sys.exit(1)

print("all optimal paths match exhaustive enumeration")
