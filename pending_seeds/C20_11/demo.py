"""C20 demo: with no truncation the compressed estimates must equal the exact
figures of the same tree -- also when an index is shared by more than two
tensors (hyper index) or is a batch index kept in the output."""
import sys
import warnings

warnings.simplefilter("ignore")

import cotengra as ctg

HUGE = 10**15
problems = []


def check(name, inputs, output, size_dict, optimize):
    tree = ctg.array_contract_tree(
        inputs, output, size_dict, optimize=optimize, canonicalize=False
    )
    leaves = [tree.get_size(leaf) for leaf in tree.gen_leaves()]
    F, W = tree.total_flops(), tree.total_write() + sum(leaves)
    S = max([tree.max_size()] + leaves)
    for order in ("surface_order", "dfs"):
        for late in (False, True):
            st = tree.compressed_contract_stats(
                chi=HUGE, order=order, compress_late=late
            )
            where = f"{name} order={order} compress_late={late}"
            if st.flops != F:
                problems.append(
                    f"{where}: compressed flops {st.flops} != exact {F}"
                )
            if st.write != W:
                problems.append(
                    f"{where}: compressed write {st.write} != exact {W}"
                )
            if st.max_size != S:
                problems.append(
                    f"{where}: compressed max size {st.max_size} != {S}"
                )
            for chi in (1, 2, 4, 16):
                sc = tree.compressed_contract_stats(
                    chi=chi, order=order, compress_late=late
                )
                if (
                    sc.max_size > st.max_size
                    or sc.peak_size > st.peak_size
                    or sc.write > st.write
                ):
                    problems.append(f"{where}: chi={chi} exceeds uncapped")


# 1. plain lattice, every index on exactly two tensors
inputs, output, _, size_dict = ctg.utils.lattice_equation([4, 4], d_max=3, seed=1)
check("lattice", inputs, output, size_dict, "greedy")

# 2. star of tensors around a hyper index 'h' (on four tensors)
inputs = [("h", "a"), ("h", "a", "b"), ("h", "b", "c"), ("h", "c")]
size_dict = {"h": 3, "a": 2, "b": 4, "c": 5}
check("hyper-sum", inputs, (), size_dict, "greedy")
check("hyper-out", inputs, ("h",), size_dict, "greedy")

# 3. batch index 'x' carried by two tensors and kept in the output
inputs = [("x", "a", "b"), ("x", "b", "c"), ("c", "a")]
size_dict = {"x": 7, "a": 2, "b": 3, "c": 4}
check("batch", inputs, ("x",), size_dict, "greedy")

# 4. random networks with hyper indices
for seed in range(6):
    inputs, output, _, size_dict = ctg.utils.rand_equation(
        7, 3, n_out=1, n_hyper_in=2, n_hyper_out=1, d_min=2, d_max=4, seed=seed
    )
    check(f"rand{seed}", inputs, output, size_dict, "greedy")

if problems:
    print(f"C20 violated ({len(problems)} mismatches), first ones:")
    for p in problems[:5]:
        print("  ", p)
    sys.exit(1)
print("ok: compressed estimates agree with the exact ones")
