"""C14 demo: two contractions with the same terms but different index sizes
must not share a cache entry, also when their size_dicts carry an entry for
a label that the contraction itself does not use (e.g. left over from a
bigger network)."""
import random
import sys

import cotengra as ctg

random.seed(0)

inputs, output, _, size_dict = ctg.utils.rand_equation(
    12, 3, n_out=2, d_min=2, d_max=6, seed=3
)
labels = sorted(size_dict)
sizes = [size_dict[ix] for ix in labels]
assert all(len(ix) == 1 and "0" < ix < "~" for ix in labels)

# query 1: the sizes as generated, plus a left-over label '~' of size 7
sd1 = dict(size_dict)
sd1["~"] = 7
# query 2: same terms, every used index gets the size of its successor (the
# last one gets 7), plus a left-over label '0' with the first size
sd2 = {ix: d for ix, d in zip(labels, sizes[1:] + [7])}
sd2["0"] = sizes[0]
assert any(sd1[ix] != sd2[ix] for ix in labels)

nsearch = [0]


class Counting(ctg.ReusableHyperOptimizer):
    def _run_optimizer(self, inputs, output, size_dict):
        nsearch[0] += 1
        return super()._run_optimizer(inputs, output, size_dict)


opt = Counting(
    methods=["greedy"],
    max_repeats=4,
    optlib="random",
    seed=0,
    parallel=False,
)

bad = []
for name, sd in [("query 1", sd1), ("query 2", sd2)]:
    n0 = nsearch[0]
    tree = opt.search(inputs, output, sd)
    h, missing = opt.hash_query(inputs, output, sd)
    stored = opt._cache[h]
    exact = ctg.ContractionTree.from_path(
        inputs, output, sd, path=stored["path"], objective="flops"
    ).get_score()
    print(
        f"{name}: searched={nsearch[0] - n0} stored score={stored['score']:.6f}"
        f" score of the stored path for this query={exact:.6f}"
        f" returned tree score={tree.get_score():.6f}"
    )
    if abs(stored["score"] - exact) > 1e-9:
        bad.append(
            f"{name}: the entry it is answered from has score "
            f"{stored['score']:.6f}, but for the sizes that were asked the "
            f"path costs {exact:.6f}"
        )
    if abs(stored["score"] - tree.get_score()) > 1e-9:
        bad.append(f"{name}: returned tree does not have the stored score")
    if any(tree.size_dict[ix] != sd[ix] for ix in labels):
        bad.append(f"{name}: returned tree has other index sizes than asked")

if nsearch[0] != 2 or len(opt._cache._mem_cache) != 2:
    bad.append(
        f"two different contractions, but {nsearch[0]} search(es) and "
        f"{len(opt._cache._mem_cache)} cache entr(y/ies)"
    )

# sanity: repeating either query is a hit and gives the same order
for sd in (sd1, sd2):
    n0 = nsearch[0]
    p_a = opt.search(inputs, output, sd).get_path()
    p_b = opt.search(inputs, output, sd).get_path()
    if nsearch[0] != n0 or p_a != p_b:
        bad.append("repeated query searched again / changed order")

if bad:
    print("FAIL: contractions with different index sizes share a cache entry:")
    for b in bad:
        print("  -", b)
    sys.exit(1)
print("OK")
