"""usage: selftest.py <PID> [-v]   — run the self-validation variants of a property."""
import sys
sys.path.insert(0, '/verif')
from sa.engine.program import Program
from sa.selftest import runner
pid = sys.argv[1].upper()
st = runner.run(pid, Program.from_repo())
s = st['summary']
print(f"{pid}: {s['variants']} variants, break ok {s['break_ok']}, twin ok {s['twin_ok']}, n/a {len(s['not_applicable'])}, failed {len(s['failed'])}")
for r in s['matrix']:
    if r['status'] != 'ok' or '-v' in sys.argv:
        print(f"  [{r['status']}] ({r['kind']}) {r['name']}: {r['detail']}")
sys.exit(1 if s['failed'] else 0)
