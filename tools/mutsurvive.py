"""Development aid (dynamic, NOT part of any check): which of the mutants that leave every static check
silent also survive the repository's test suite?  Those are the blind spots worth a new clause; mutants the
suite kills at once are not realistic 'passes the existing tests' changes.

Each selected mutant is applied to a scratch copy of the repository (cotengra/ + tests/ under
/tmp/ms/<k>), the suite is run there with -x (stop at the first failure) and the copy is removed.

usage: mutsurvive.py <mutmap.jsonl> --funcs f1,f2,... [--file cotengra/core.py] [--jobs 3] [--out path]
"""
import argparse
import json
import os
import shutil
import subprocess
import sys
from concurrent.futures import ThreadPoolExecutor

sys.path.insert(0, "/verif")
sys.path.insert(0, "/verif/tools")
from mutmap import mutants_of, apply  # noqa: E402


def run_one(args):
    k, path, pos, rep, desc, func, line, nw, timeout = args
    root = f"/tmp/ms/{k}"
    shutil.rmtree(root, ignore_errors=True)
    os.makedirs(root)
    shutil.copytree("/repo/cotengra", f"{root}/cotengra", ignore=shutil.ignore_patterns("__pycache__"))
    shutil.copytree("/repo/tests", f"{root}/tests", ignore=shutil.ignore_patterns("__pycache__"))
    for f in ("pyproject.toml",):
        if os.path.exists(f"/repo/{f}"):
            shutil.copy(f"/repo/{f}", f"{root}/{f}")
    src = open(f"{root}/{path}").read()
    open(f"{root}/{path}", "w").write(apply(src, pos, rep))
    env = dict(os.environ, PYTHONPATH=root, PYTHONDONTWRITEBYTECODE="1")
    try:
        p = subprocess.run(
            ["/venv/bin/python", "-m", "pytest", "-q", "-x", "-p", "no:cacheprovider", "--timeout=600",
             "-n", str(nw), "-k", "not chocolate", "tests"],
            cwd=root, env=env, capture_output=True, text=True, timeout=timeout)
        tail = [l for l in p.stdout.strip().splitlines() if l.strip()][-1:] or [""]
        status = "survived" if p.returncode == 0 else "killed"
        first_fail = [l for l in p.stdout.splitlines() if l.startswith("FAILED") or l.startswith("ERROR")][:1]
    except subprocess.TimeoutExpired:
        status, tail, first_fail = "timeout", [""], []
    shutil.rmtree(root, ignore_errors=True)
    return {"file": path, "func": func, "line": line, "desc": desc, "status": status, "tail": tail[0][:160],
            "first_fail": (first_fail or [""])[0][:160]}


def main():
    ap = argparse.ArgumentParser()
    ap.add_argument("jsonl")
    ap.add_argument("--funcs", required=True)
    ap.add_argument("--file")
    ap.add_argument("--jobs", type=int, default=3)
    ap.add_argument("--nw", type=int, default=4)
    ap.add_argument("--timeout", type=int, default=1500)
    ap.add_argument("--ops", default="cmp,bin,bool,not,neg-test,loop-exit,del-stmt,const,bool-const")
    ap.add_argument("--out", default="/tmp/mutsurvive.jsonl")
    a = ap.parse_args()
    funcs = set(a.funcs.split(","))
    ops = set(a.ops.split(","))
    silent = {}
    for l in open(a.jsonl):
        r = json.loads(l)
        if r["fired"] or r["errors"]:
            continue
        if a.file and r["file"] != a.file:
            continue
        if r["func"].split(".")[-1] not in funcs or r["op"] not in ops:
            continue
        silent[(r["file"], r["func"], r["line"], r["desc"])] = r
    # recover positions by regenerating the mutants of the files involved
    tasks = []
    for path in sorted({k[0] for k in silent}):
        src = open(f"/repo/{path}").read()
        for q, line, op, pos, rep, desc in mutants_of(path, src):
            if (path, q, line, desc) in silent:
                tasks.append((len(tasks), path, pos, rep, desc, q, line, a.nw, a.timeout))
    print(f"{len(tasks)} silent mutants to run against the suite", flush=True)
    with open(a.out, "a") as fo, ThreadPoolExecutor(a.jobs) as ex:
        for res in ex.map(run_one, tasks):
            fo.write(json.dumps(res) + "\n")
            fo.flush()
            print(res["status"], res["func"], res["line"], res["desc"][:70], "|", res["first_fail"][:80], flush=True)


if __name__ == "__main__":
    main()
