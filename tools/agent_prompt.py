"""Prints the prompt handed to a fresh sub-agent that is asked to seed a
property-breaking change (nothing from /verif except the property text)."""
import json
import sys

pid, wt = sys.argv[1], sys.argv[2]
n = int(sys.argv[3]) if len(sys.argv) > 3 else 2
extra = sys.argv[4] if len(sys.argv) > 4 else ""
k0 = int(sys.argv[5]) if len(sys.argv) > 5 else 1
if extra == "TAKEN":
    # one-line summaries of the ideas earlier agents already used for this property
    sys.path.insert(0, "/verif/tools")
    from write_seed_meta import INFO
    taken = [v[1] for k, v in sorted(INFO.items()) if v[0] == pid]
    extra = ("Ideas ALREADY USED by earlier participants for this property (do not repeat them or close variants; "
             "look at less obvious places, other files, other mechanisms of the property):\n"
             + "\n".join(f"  - {t}" for t in taken) + "\n")
for line in open("/verif/properties.jsonl"):
    p = json.loads(line)
    if p["id"] == pid:
        break
else:
    raise SystemExit("no such property")
print(f"""You are helping to evaluate a verification tool. You get a git worktree of the Python library
jcmgray/cotengra (a tensor-network contraction-path optimizer) at {wt} and one semantic property the
library is supposed to have. Your job: write {n} DIFFERENT, independent, realistic source changes
(bugs a maintainer could plausibly introduce during a refactor/optimisation/feature) each of which
BREAKS the property while the code still imports and the existing test suite still passes.

PROPERTY {p['id']}: {p['title']}
Statement: {p['statement']}
Quantified over: {p['quantifier']['text']}
Why the tests cannot settle it: {p['why_tests_cant']}
Files the property is mostly about: {', '.join(p['anchors']['files'])}
{extra}
Requirements for each change:
- It must need something SPECIFIC to manifest: a particular multi-step sequence of operations, an
  unusual input, a particular interleaving/crash point, a particular option combination, or two
  cooperating edits that each look fine alone. NOT something ordinary use exposes at once.
- Keep it small (a few lines, in the library sources under cotengra/ only; do not touch tests/).
- The existing test suite must still pass with the change applied. Run it from the worktree:
    cd {wt} && /venv/bin/python -m pytest -q -p no:cacheprovider -x -n 6 --timeout=900
  (about 2-4 minutes; `python -m pytest` run from the worktree imports the worktree's cotengra, check
  with `cd {wt} && /venv/bin/python -c "import cotengra; print(cotengra.__file__)"`). Two tests named
  test_hyper[...chocolate...] fail on the unmodified tree already; ignore those two.
- Write a demonstration: a small stand-alone script demo.py that exits 0 on the unmodified worktree
  and exits non-zero (with a short message saying what went wrong) with your change applied. Run it as
    cd {wt} && PYTHONPATH={wt} /venv/bin/python <path to demo>
  The demo must be deterministic (fix seeds) and finish in under 2 minutes.
- Work ONLY inside {wt} and /tmp/seed_out. Never touch /repo or /verif. No network is available.
- NEVER use `git stash` (the stash is shared by all worktrees of the repository and other people work in
  sibling worktrees): set a change aside with `git -C {wt} diff > file`, `git -C {wt} checkout -- .`, `git apply file`.
- Do not use `-x` with pytest; deselect the two known failures with `-k "not chocolate"`; use `-n 4`.

Deliverables: for change k (k = {k0}..{k0 + n - 1}) create the directory /tmp/seed_out/{pid}_k/ containing
  patch.diff   (output of `git -C {wt} diff` for that change alone, relative to the worktree HEAD)
  demo.py      (the demonstration)
  notes.md     (3-10 lines: what the change is, why it breaks the property, what specific
                condition it needs to manifest, and what you ran with what result)
After saving each change, undo it with `git -C {wt} checkout -- .` before starting the next, so that
every patch applies on its own to a clean worktree. Before finishing, for each change verify from a
clean worktree: demo passes (exit 0); `git -C {wt} apply /tmp/seed_out/{pid}_k/patch.diff`; demo fails;
test suite passes; then clean again. Leave the worktree clean at the end. Reply with a short summary
(one paragraph per change). The system has a harmless conda warning line on every shell command; ignore it.""")
