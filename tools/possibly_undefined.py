"""Cross-reference lint (not a check): uses of a local name that is not definitely assigned on every
CFG path from the function entry (mypy's possibly-undefined, which is not installed here)."""
import ast
import sys

sys.path.insert(0, "/verif")
from sa.engine.program import Program, walk_local  # noqa: E402
from sa.engine.dataflow import FuncFlow  # noqa: E402

p = Program.from_repo(None)
out = []
for f in p.all_funcs():
    try:
        fl = FuncFlow(f, p)
    except Exception as e:  # pragma: no cover
        continue
    cfg = fl.cfg
    local = {d.name for d in fl.defs}
    gen = {n.id: {d.name for d in fl.defs_at.get(n.id, []) if d.strong} for n in cfg.nodes}
    ALL = set(local)
    da_out = {n.id: set(ALL) for n in cfg.nodes}
    da_out[cfg.entry.id] = set(gen.get(cfg.entry.id, set()))
    changed = True
    order = [n.id for n in cfg.nodes]
    while changed:
        changed = False
        for nid in order:
            if nid == cfg.entry.id:
                continue
            preds = cfg.pred[nid]
            inn = set.intersection(*(da_out[q] for q in preds)) if preds else set()
            new = inn | gen.get(nid, set())
            if new != da_out[nid]:
                da_out[nid] = new
                changed = True
    reach = cfg.reachable()
    for n in cfg.nodes:
        if n.id not in reach or n.ast is None or n.kind in ("def",):
            continue
        preds = cfg.pred[n.id]
        inn = set.intersection(*(da_out[q] for q in preds)) if preds else set()
        exprs = fl._own_exprs(n) if hasattr(fl, "_own_exprs") else []
        for e in exprs:
            for x in ast.walk(e):
                if isinstance(x, ast.Name) and isinstance(x.ctx, ast.Load) and x.id in local and x.id not in inn:
                    # comprehension variables etc. are bound inside the expression
                    bound = {t.id for c in ast.walk(e) if isinstance(c, ast.comprehension)
                             for t in ast.walk(c.target) if isinstance(t, ast.Name)}
                    bound |= {a.arg for l in ast.walk(e) if isinstance(l, ast.Lambda) for a in l.args.args}
                    if x.id in bound:
                        continue
                    out.append((f.module.path, x.lineno, f.qual, x.id))
seen = set()
for o in sorted(out):
    if o[:1] + o[2:] in seen:
        continue
    seen.add(o[:1] + o[2:])
    print(f"{o[0]}:{o[1]} {o[2]}: `{o[3]}` possibly undefined")
print(len(seen), "sites")
