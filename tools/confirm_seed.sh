#!/bin/bash
# usage: confirm_seed.sh <seed_out_dir> <id>
# Confirms a seeded change in a scratch worktree: demo passes clean, patch applies,
# demo fails with patch, baseline suite still passes with patch. On success copies
# it to /verif/seeded/<id>/ with meta.json (fields completed by hand afterwards).
set -u
src=$1; id=$2
wt=/tmp/wt/confirm_$id
git -C /repo worktree add --detach -f $wt HEAD >/dev/null 2>&1 || { echo "worktree failed"; exit 2; }
cleanup() { git -C /repo worktree remove --force $wt >/dev/null 2>&1; }
trap cleanup EXIT
cd $wt
run_demo() { (cd $wt && PYTHONPATH=$wt timeout 300 /venv/bin/python $src/demo.py >/tmp/demo_$id.out 2>&1); echo $?; }
d0=$(run_demo)
git -C $wt apply $src/patch.diff || { echo "RESULT $id patch-does-not-apply"; exit 1; }
d1=$(run_demo)
msg=$(grep -v condarc /tmp/demo_$id.out | tail -2 | tr '\n' ' ')
out=$(mktemp /var/tmp/suite.XXXXXX.xml)
(cd $wt && timeout 3000 /venv/bin/python -m pytest -q -p no:cacheprovider --timeout=900 --continue-on-collection-errors -n ${NW:-7} --junitxml=$out >/dev/null 2>&1)
suite=$(/venv/bin/python - $out <<'PY'
import json, sys, xml.etree.ElementTree as ET
base = set(json.load(open('/root/.vp/BASELINE.json'))['stable_pass'])
passed = set()
for tc in ET.parse(sys.argv[1]).getroot().iter('testcase'):
    if not any(ch.tag in ('failure', 'error', 'skipped') for ch in tc):
        passed.add(f"{tc.get('classname')}::{tc.get('name')}")
m=sorted(base - passed)
print(len(m), *m[:3])
PY
)
rm -f $out /tmp/demo_$id.out
echo "RESULT $id demo_clean=$d0 demo_patched=$d1 suite_missing=$suite msg=[$msg]"
if [ "$d0" = "0" ] && [ "$d1" != "0" ] && [ "${suite%% *}" = "0" ]; then
  mkdir -p /verif/seeded/$id
  cp $src/patch.diff $src/demo.py /verif/seeded/$id/
  [ -f $src/notes.md ] && cp $src/notes.md /verif/seeded/$id/notes.md
  echo "CONFIRMED $id"
else
  echo "REJECTED $id"
fi
