#!/bin/bash
# Runs the repository's pinned test suite (xdist, 8 workers) and compares the
# passing set with BASELINE.stable_pass.  Used after every fix:/hook commit.
cd /repo || exit 2
out=$(mktemp /var/tmp/suite.XXXXXX.xml)
timeout 3000 /venv/bin/python -m pytest -q -p no:cacheprovider --timeout=900 --continue-on-collection-errors -n 8 --junitxml="$out" >/dev/null 2>&1
/venv/bin/python - "$out" <<'PY'
import json, sys, xml.etree.ElementTree as ET
base = set(json.load(open('/root/.vp/BASELINE.json'))['stable_pass'])
passed = set()
for tc in ET.parse(sys.argv[1]).getroot().iter('testcase'):
    if not any(ch.tag in ('failure', 'error', 'skipped') for ch in tc):
        passed.add(f"{tc.get('classname')}::{tc.get('name')}")
missing = sorted(base - passed)
print(f"baseline stable_pass={len(base)} passed_now={len(passed)} missing={len(missing)}")
for m in missing[:20]:
    print("  MISSING", m)
sys.exit(1 if missing else 0)
PY
rc=$?
rm -f "$out"
exit $rc
