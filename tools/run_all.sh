#!/bin/bash
# Runs every claimed check (tier $1, default quick) once and reports exit codes; non-zero if any != 0.
tier=${1:-quick}; rc=0
for p in $(/venv/bin/python -c "import json;print(' '.join(c['property_id'] for c in json.load(open('/verif/MANIFEST.json'))['checks']))"); do
  out=$(cd /verif && /venv/bin/python -I sa/check.py $p --tier $tier 2>&1); code=$?
  out=$(echo "$out" | grep -v condarc)
  echo "$p exit=$code $(echo "$out" | head -1 | cut -c1-140)"
  [ $code -ne 0 ] && { rc=1; echo "$out" | grep -E "VIOLATION|ANALYSIS" | head -5; }
done
exit $rc
