#!/bin/bash
# usage: try_seed.sh <patch> <PID>...  — apply a seeded patch to /repo, run the given checks (no evidence kept), undo.
patch=$1; shift
cd /repo || exit 2
if [ -n "$(git status --porcelain)" ]; then echo "repo not clean"; exit 2; fi
git apply $patch || { echo "patch does not apply"; exit 2; }
for p in "$@"; do
  /venv/bin/python -I /verif/tools/run_on.py $p 2>&1 | grep -v condarc | grep -E "violation\]|new violations|ANALYSIS" | cut -c1-260
done
git checkout -- . ; git status --porcelain
