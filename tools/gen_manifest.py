"""Regenerates /verif/MANIFEST.json from the table below (claimed properties are
those with a rules module under sa/rules/)."""
import json
import os

VERIF = "/verif"

CLAIMED = {
    "C01": ("4 C01", "classification of the step records built by extract_contractions (element kinds, flag/argument/"
            "permutation consistency, can_dot guard of the tensordot branch) against the executor's use of the unpacked "
            "positions; convention analysis of the per-node recipes (axes pairing, operand order of the equation, "
            "direction of the tensordot permutation); shared root-order and children-first rules"
            "; re-lettering of the pairwise equation (injective map); shared C11 layout/executor clauses of the default implementation; shared symbolic check of the move evaluator"),
    "C02": ("4 C02", "ast/CFG cache-invalidation analysis: key registry + computed getter dependency graph, "
            "must-pass-through of reset_contraction_indices after node removal, root-order writer guard, who-may-write, "
            "memo-key carrier analysis of the compiled-contractor cache, purity of inplace=False transformations "
            "(writes and CFG-reachable stale reads of the original)"
            "; compiled-contractor invalidation after every hand-written change of order-sensitive recipes"),
    "C03": ("4 C03", "def-use provenance of flops/size getters, must-dependence of extensive totals on the slice multiplicity, "
            "executed-equals-reported clauses (contractor memo key, sliced-leaf invalidation)"
            "; symbolic evaluation (monomials in the index dimensions) of remove_ind's in-place deltas; integer-arithmetic discipline of stored figures; option-forwarding along the delegate chains of the tree (the requested traversal order reaches every delegate: keyword, position, dict, forwarded **kwargs)"),
    "C04": ("4 C04", "attribute-completeness and aliasing analysis of set_state_from/copy, who-may-write and "
            "sign-symmetry of running totals, CFG dominance of contract_stats before deltas"
            "; symbolic evaluation of remove_ind's in-place deltas and of the annealing move evaluator (case analysis left/right/both); guard agreement of reset, refill and flag of each recomputed total; def-use purity of the left/right orientation test (node sets only); ad-hoc per-node cache keys"),
    "C05": ("4 C05", "pairing/typestate of the path simulator's single-use ids (every recorded step pops its ids and adds one "
            "node; who-may-write the id counter and node table), CFG must-pass-through of optimize_remaining_by_size "
            "before every hand-out of a path, path-sensitive guard of flops-limited runs, completion branches of the "
            "tree builders on every path, guard of the one-community partition result"
            "; coverage of the leftover heap; dominance of every builder return by its completing loop; copy-completeness of the path simulator (each slot from the same slot of the source); guard analysis of constant subscripts on the caller's explicit path; positive-floor analysis of logarithm arguments fed by a zero-initialised counter; typestate of the set of nodes still to divide incl. its initial state; sibling progress-escape of partition-driven loops; CFG must-pass-through of a keyed store between an empty tally and the pick; sign-domain analysis of logarithm arguments in the greedy score; memoised factories of result-carrying optimizers (shared with C16); end-to-end evaluation of the greedy and optimal finders with the processor class on every small network, the returned paths replayed (DESIGN E9)"),
    "C06": ("4 C06", "write-discipline of the sliced-index table (sorted rebuild only, SliceInfo field order) and pairing "
            "of sliced_inputs updates, chunk-key/slice-number agreement, exponent-aware combination sites"
            "; partial evaluation of every enumeration of slice numbers; recurrence of the strides and digit/remainder order of the mixed-radix decoding; storage ownership of yielded chunks; may-alias analysis of in-place writes in the adder and the gatherer (parameters, unpackings, elements, iteration); evaluation of the slice-number decoding over every bounded table (bijection onto the value combinations, DESIGN E9)"),
    "C07": ("4 C07", "CFG guard dominance of the forbidden-index test, structural form of the target filter, sibling "
            "agreement of the three target encodings"
            "; symbolic evaluation of the cost model's arithmetic (initial totals, per-index reductions, removal deltas, stored entry, figures) against the tree's definitions; copy completeness of the model; decision table of the allow_outer modes; flag/target agreement of every target test; ownership (who-may-write) of the cost model's slots over the whole package, with a built-in positive example"),
    "C08": ("4 C08", "post-dominance of stats refresh after in-place post-processing, sibling cross-check of objectives' "
            "recorded keys, guarded best update and once-per-trial bookkeeping on the CFG"
            "; effect analysis of the shared trial-function wrappers and objectives (no per-trial state); boolean path analysis of the report filter (satisfiability of each path condition under 'score is +inf', atoms enumerated); def-use trace of the assessment loop's iterable through pass-through wrappers only"),
    "C09": ("4 C09", "abstract interpretation of the six sibling step-cost functions into cost signatures compared with "
            "the objectives' definitions and with the name dispatch; CFG/guard analysis of the DP (memo overwrite "
            "guard and tuple layout, sieve skip, early exits, outer-product flag); partial evaluation of the "
            "bipartition range expressions; must-pass-through of the cap widening; option integrity (no re-binding of the objective / outer-product option, unchanged hand-over to delegates); provenance of the batch-index test (carriers vs appearance table); integrity of the network handed to the processor; evaluation of the step-cost functions over a bounded family against the objectives' definitions (shared with C18, DESIGN E9); evaluation of the dynamic programme itself on a bounded family of networks against an exhaustive enumeration of all binary trees (DESIGN E9)"),
    "C10": ("4 C10", "typestate of the depth-first traversal's ready set and guard of its yield; sibling cross-check of the "
            "recycled-id protocol (descending removal, positions before removal, append) over every pop/append loop; "
            "CFG pairing of single-assignment id counters with their uses; linear-form check of get_ssa_path's id"
            "; def-use provenance of converted paths (caller-supplied paths need the input count); positional del treated as removal; sample evaluation of the inferred input count against its definition; ad-hoc per-node cache keys (shared with C02); truth-value uses of path parameters; per-call dispatch of explicit paths (shared with C13); evaluation of the converters' pure source over an exhaustive bounded family of paths and index orders (DESIGN E9)"),
    "C11": ("4 C11", "abstract interpretation of the batched-matmul planner's layout expressions into sequences of "
            "index-group symbols (groups identified by their filling conditions) checked against the matmul contract; "
            "direction analysis of every transposition tuple; stage/position agreement of the single-operand planner "
            "and executor by construction/usage kinds; exception-type and normalisation discipline of tensordot's axes"
            "; stage extraction of the executor (guard, polarity, order) matched against the plan by construction/usage roles; structural clauses of the pure-multiplication plan and of the tensordot equation; permutation guard of transposition-only plans; module-wide scan of transposition tuples in both spellings; def-use provenance of every returned plan from the equation's output; sample execution of the diagonal layout bookkeeping by a string evaluator; multiplicity discipline of the classification loops; blacklist of conjugating / flattening primitives; evaluation of the planners' pure source by a restricted AST evaluator over an exhaustive bounded family of equations and sizes, with the returned plan checked in an abstract domain of fused-axis layouts (edge of the family, see DESIGN E9)"),
    "C12": ("4 C12", "structural and partially-evaluated checks of the front end's rewrites: statement-order and guard of "
            "the fresh-symbol choice, partial evaluation of the ellipsis slice and of the interleaved index expressions, "
            "sibling agreement of the implicit-output implementations, guard/direction of the single-operand fast paths, "
            "def-use check that every label-carrying argument passes the one renaming map"
            "; form-independent partial evaluation of the interleaved form (loop or strided slices); routine used for implicit outputs of the label interface; CFG must-pass-through of a blank-stripping re-binding between the caller's subscripts string and its splitter; completeness of the ellipsis symbol list before operands are replaced; conventions of the pairwise backend (shared with C01/C11); evaluation of the ellipsis rewriting's pure source over a bounded family of equations against numpy's rule (DESIGN E9)"),
    "C13": ("4 C13", "cache-key completeness/injectivity by def-use dependence, sibling TypeError fallback, purity and "
            "result-immutability of lru_cached parsers, array-taint of cached callables"
            "; computed layering of memo functions below cache tables and joint invalidation; memo-key carrier analysis of the per-tree contractor memo (shared with C02)"),
    "C14": ("4 C14", "fingerprint determinism/coverage by dependence analysis, cache policy as CFG path properties, "
            "writer/reader record-schema agreement"
            "; overwriting publish of the durable store; sibling agreement of wrapper and sub-optimizer constructors on the effective objective; pairing of sizes with their labels in the hashed structure"),
    "C15": ("4 C15", "atomic-publish typestate of every durable write (temp sibling + os.replace post-dominating), "
            "reader maps corrupt entries to KeyError on all paths"
            "; writer never deletes an entry path; presence decided by the entry file alone; def-use dependence of the temporary's name on per-writer identity inside the writing function; copying routines as in-place writers"),
    "C16": ("4 C16", "thread-keyed / content-addressed store discipline of per-query state and carry-over (result-"
            "carrying attribute) analysis over the call graph; class-level mutable containers mutated through self (all classes, built-in positive example); CFG path analysis of the searched-flag including exceptional edges out of the run; memoised factories returning result-carrying instances"),
    "C17": ("4 C17", "seed plumbing over the resolved call graph, no global-RNG use under seeded entries, "
            "named-preset resolution (register_preset table) for sub-optimizers of seeded operations, "
            "flow-sensitive hash-ordered iteration classification; per-class collection of tables keyed by label sets and consumer classification inside the ranking functions applied to their items"),
    "C18": ("4 C18", "sibling cross-check of the index-survival predicates and appearance tables of the cost simulators; "
            "uncompensated index drop reachability"
            "; symbolic case analysis (index on left / right / both) of the annealing move evaluator against the survival rule; freshness of the sub-optimizer behind stored scores (shared with C16); evaluation of the processor's pure leg-arithmetic functions over a bounded family of term pairs against the survival rule and cost definitions (DESIGN E9)"),
    "C19": ("4 C19", "every per-slice combination site uses the exponent-aware adder; normalise/accumulate pairing; "
            "rescale-before-stack dominance and form; scale measure and zero sentinel; option reaches every expression branch"
            "; guard of the zero early-out; may-alias taint of in-place writes in the executor; sibling agreement in kind (array vs bare number) of the executor's stripped returns against the stacking consumer; evaluation of the adder's pure source over a family spanning the property's exponent range against exact rational sums (DESIGN E9)"),
    "C20": ("4 C20", "taint of the bond cap chi (reaches sizes only through min()/comparison); sibling cross-checks of "
            "compress vs its cost estimate, hypergraph vs tree survival rule, exact vs compressed size range; "
            "ownership (freshness) of the simulator's size table; unary-step handling of path consumers"
            "; symbolic evaluation of the compressed tracker's update methods (ledger of the simulated steps); dominance / post-dominance bracketing of every simulated compress and contract by the tracker's update calls"),
}

LEVEL_TEXT = {
    "C01": "conventions only: the record protocol between tree and executor is consistent (flag, argument kind, permutation, operand order, can_dot guard, preprocessing first), the recipes share one left/right convention and permutation direction, the root order is the declared output's and children are executed first; equality of the computed arrays with einsum is NOT decided",
    "C02": "for every function that can restructure or slice a tree (all sites, hence all histories through them) the cached per-node recipes are invalidated as the computed dependency graph requires; value equality itself is numerical and not decided",
    "C03": "the definitions of flops/size and the slice multiplicity of every reported total are read off the getters by def-use dependence (must-dependence on every path); the arithmetic on runtime sizes is not decided; slicing rescales per-step and total figures by the definitional factors",
    "C04": "every attribute of a tree is copied safely, running totals are adjusted symmetrically by their owners only, and no slice-dependent figure is first computed after the sliced set changed — for all sites; integer arithmetic is not decided; the in-place deltas of slicing are the definitional differences",
    "C05": "protocol facts only: ids of the path simulator are single-use and consumed by removal, every finder built on it joins leftover parts before handing a path out and never hands out a flops-limited run, from_path and the partition builders join what is left on every path; the corner cases the property names (one tensor, scalars, networks without shared indices) are carried by structural clauses: empty explicit path accepted, zero operation counts floored before a logarithm, a single-leaf root never queued for division, every partition-driven loop escapes when nothing happened, tallies and extremes that may range over nothing are guarded (one known finding: the hyper-optimizer's objectives on a one-tensor network); which contraction is found and that partitioners label every node is NOT decided",
    "C06": "every writer of the sliced-index table keeps output indices first and the slice count is multiplied/divided by the recorded size; stride arithmetic is runtime and not decided",
    "C07": "forbidden indices are excluded on every path, whatever search() returns passes the unscaled target filter, the cost model slices only indices it knows against its own baseline; equality of predicted and real costs is not decided; the cost model's own arithmetic equals the tree's cost definitions for one abstract contraction (symbolically)",
    "C08": "the returned trial is the arg-min of the recorded scores on every schedule (each reported trial is compared, guarded update, once-per-trial bookkeeping) and recorded costs are refreshed after every in-place post-processing, a failed trial never reaches the sampling library, every drawn trial reaches the comparison; cost values are not decided",
    "C09": "necessary conditions of optimality only: each objective name is minimised with a step cost whose derived signature equals the objective's definition, the per-subgraph memo keeps the better entry, the sieve skips only on the new score against a cap that grows every round, every bipartition size is enumerated, search_outer is honoured; in addition the finder's own source, evaluated on a bounded family of networks (three to six tensors, eight objectives, both search_outer values), returns the minimum over all binary trees found by an independent enumeration; beyond that family global optimality is NOT decided",
    "C10": "conventions only: every emitted path is produced children-first, every implementation of the recycled-id format removes operands in descending order and appends the result, every single-assignment id counter starts at the number of inputs and advances once per emitted step on every path; in addition the three converters' source, evaluated on every bounded path and index order, is an exact inverse pair and follows the id conventions; round trips through the tree class beyond that are NOT decided",
    "C11": "layout agreement only: prepared operands, reshape groups and produced output order satisfy (B,M,K)x(B,K,N)->(B,M,N) for every equation, every transposition tuple has the right direction, planner and executor of single-operand einsum agree on stage order, tensordot accepts integer and negative axes; in addition the planners' source, evaluated on exhaustive bounded families of equations and sizes, yields plans that turn abstract operands into the output's axes under numpy's rules; numerical equality on arrays is NOT decided",
    "C12": "conventions only: fresh ellipsis symbols exclude every used symbol, ellipsis dimensions are right-aligned per operand and first in implicit outputs, implicit outputs are sorted singles (or first-appearance order for labels), the interleaved form pairs operand 2i with sublist 2i+1, single-operand fast paths are guarded and transpose in the right direction, one renaming map, ncon outputs ordered -1, -2, ..., blanks dropped before the subscripts string is split; in addition the ellipsis rewriting and the interleaved conversion, evaluated on bounded families, agree with numpy's rules; conformance on arrays is NOT decided",
    "C13": "cache keys are complete and injective, memoised functions pure, cached callables stateless — for every cache site and call site in the package; numeric equality of cached and uncached results is not decided",
    "C14": "fingerprints are deterministic, covering and position-preserving, and the lookup/run/overwrite policy holds on every CFG path of the reusable optimizer; that a rebuilt tree equals the searched one is not decided",
    "C15": "no kill point can leave a partial file under an entry name because every durable write is temp-sibling + close + atomic replace, and a corrupt entry reads as absent; filesystem behaviour is assumed (POSIX rename)",
    "C16": "per-query state of shared optimizers is keyed by thread or by contraction on every write/read, no result-carrying optimizer is reused, and 'searched' is only reported by the searching thread — the interleaving quantifier is discharged structurally (atomic dict ops assumed)",
    "C17": "the seed reaches every random-consuming callee of every seeded context over the resolved call graph, no global generator is used, named preset sub-optimizers of seeded operations consume no randomness, no label set is iterated into an order-sensitive consumer; third-party partitioners are trusted given their seed",
    "C18": "all simulators use the same survival predicate, appearance table and count bookkeeping (sibling cross-check) and a reported cost covers every contraction step; numerical equality step by step is not decided",
    "C19": "every combination of per-slice results is exponent-aware, the scale divided out is the largest magnitude and accumulated additively in log space with a bounded rescale, a zero result carries the neutral exponent, stripped returns agree in kind with what the stacking consumer needs (one known finding: the scalar check_zero exit); floating-point range claims themselves are not decided",
    "C20": "the bond cap reaches sizes only through min()/comparison, the compress-cost estimate charges exactly when compress truncates, the simulator owns its size table and keeps the tree's survival rule, exact and compressed size figures range over the same tensors, path consumers accept unary steps; tracker arithmetic is not decided",
}

NA = {
}


def main():
    checks = []
    for pid, (ref, tech) in sorted(CLAIMED.items()):
        if not os.path.exists(f"{VERIF}/sa/rules/{pid.lower()}.py"):
            NA.setdefault(pid, "check not implemented yet in this revision of /verif (planned, see DESIGN.md)")
            continue
        checks.append({
            "property_id": pid,
            "quick_cmd": f"/venv/bin/python -I sa/check.py {pid} --tier quick",
            "thorough_cmd": f"/venv/bin/python -I sa/check.py {pid} --tier thorough",
            "evidence_file": f"/verif/evidence/{pid}.json",
            "replay_cmd_template": f"/venv/bin/python -I sa/check.py {pid} --replay {{path}}",
            "engine": "sa",
            "level_claimed": {
                "category": "other",
                "text": "static analysis of the current /repo sources (structural necessary conditions, decided for "
                        "every site in the package and hence for all inputs/histories through it): " + LEVEL_TEXT[pid],
                "design_ref": f"DESIGN.md section {ref}",
            },
            "level_note": "trusted base: Python ast of /repo/cotengra (41 modules), the checker's call resolution and "
                          "CFG; assumes no monkey-patching and behaviour-equivalent optional accelerators; frozen "
                          "exception tables are listed in the evidence",
            "technique": tech,
        })
    man = {
        "version": 1,
        "setup_cmd": "/venv/bin/python -I sa/setup_check.py",
        "hooks": {
            "guard": "COTENGRA_VERIF",
            "enable": "none needed: nothing is executed, the checks parse /repo/cotengra/**/*.py",
            "baseline_off_cmd": "cd /repo && /venv/bin/python -m pytest -ra -q -p no:cacheprovider --timeout=900 "
                                "--continue-on-collection-errors",
            "source_commits": [],
            "add_only": True,
        },
        "engines": [{
            "name": "sa",
            "path": "/verif/sa",
            "serves_properties": [c["property_id"] for c in checks],
            "kind_free_text": "repository-specific static analysis on the Python ast: loader with alias/registry "
                              "resolution, class-hierarchy call resolution, per-function CFG with dominators, "
                              "reaching-definition dependence, effect summaries; rules per property; in-memory "
                              "break/twin variants as self-validation (thorough tier)",
        }],
        "checks": checks,
        "notes": "Fixes of genuine defects found by the rules are 'fix:' commits in /repo, listed in "
                 "/verif/known_findings.json (fixed entries) together with the findings recorded but not repaired.",
        "not_applicable": [{"property_id": k, "reason": v} for k, v in sorted(NA.items())],
    }
    with open(f"{VERIF}/MANIFEST.json", "w") as f:
        json.dump(man, f, indent=1)
    print("claimed:", [c["property_id"] for c in checks])
    print("not applicable:", sorted(NA))


if __name__ == "__main__":
    main()
