"""Debug helper: run a property's rules on (a) a git revision of /repo or (b)
the working tree with a patch file applied in memory is NOT supported here —
use `git -C /repo apply` for that.  Prints instances/violations; writes nothing.
usage: run_on.py <PID> [--rev REV] [--tier quick|thorough] [-v]"""
import argparse, sys
sys.path.insert(0, '/verif')
from sa.engine.program import Program, read_sources_git, AnalysisError
from sa import check
ap = argparse.ArgumentParser()
ap.add_argument('pid'); ap.add_argument('--rev'); ap.add_argument('--root'); ap.add_argument('--tier', default='quick'); ap.add_argument('-v', action='store_true')
a = ap.parse_args()
prog = Program(read_sources_git(a.rev), label=a.rev) if a.rev else Program.from_repo(a.root)
try:
    mod, results, ctx, new, matched, stale = check.run_property(a.pid.upper(), prog, a.tier)
except AnalysisError as e:
    print('ANALYSIS-ERROR', e); sys.exit(2)
for r in results:
    print(f"{r.rule}: {len(r.instances)} instances, {len(r.violations)} violations")
    for i in r.instances:
        if a.v or i.verdict != 'ok':
            print(f"   [{i.verdict}] {i.construct}  @{i.loc}  {i.reason} {i.detail if a.v else ''}")
print('new violations:', len(new), 'known:', len(matched))
