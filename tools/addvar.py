"""usage: addvar.py <pid> < text-with-dict(...)-entries : inserts the entries before the closing bracket of VARIANTS."""
import re
import sys

pid = sys.argv[1].lower()
path = f"/verif/sa/selftest/{pid}.py"
s = open(path).read()
m = list(re.finditer(r"^\]\s*$", s, re.M))
assert m, "no closing bracket of VARIANTS"
i = m[-1].start()
new = sys.stdin.read().rstrip() + "\n"
s = s[:i] + new + s[i:]
compile(s, path, "exec")
open(path, "w").write(s)
print("added to", path)
