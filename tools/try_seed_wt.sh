#!/bin/bash
# usage: try_seed_wt.sh <patch> <PID>...  — apply a seeded patch in a scratch worktree (never /repo itself),
# run the given checks' rules against it (no evidence written), remove the worktree.
patch=$1; shift
wt=/tmp/wt/try_$$
git -C /repo worktree add --detach -f $wt HEAD >/dev/null 2>&1 || exit 2
trap "git -C /repo worktree remove --force $wt >/dev/null 2>&1" EXIT
git -C $wt apply $patch || { echo "patch does not apply"; exit 2; }
for p in "$@"; do
  /venv/bin/python -I /verif/tools/run_on.py $p --root $wt 2>&1 | grep -v condarc | grep -E "violation\]|new violations|ANALYSIS" | cut -c1-300
done
