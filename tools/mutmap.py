"""Sensitivity map of the checks (development aid, not a check): every small syntactic mutant of the
anchored files is applied IN MEMORY (cotengra is never executed) and the quick rules of every property
anchoring that file are run on it.  For each function the map says how many mutants make some rule fire
(violation), how many stop a check fail-closed (analysis error) and how many leave every check silent.
Silent mutants are *candidates*: most are equivalent / irrelevant to the 20 properties, the rest are the
blind spots worth a new clause.  Output: JSON lines + a per-function table.

usage: mutmap.py [--files f1,f2] [--props C01,C02] [--jobs N] [--out path] [--limit N] [--only-func NAME]
"""
import argparse
import ast
import json
import os
import sys
from concurrent.futures import ProcessPoolExecutor

sys.path.insert(0, "/verif")
from sa.engine.program import AnalysisError, Program  # noqa: E402
from sa.engine import report  # noqa: E402
from sa import check  # noqa: E402

CMP = {ast.Lt: "<=", ast.LtE: "<", ast.Gt: ">=", ast.GtE: ">", ast.Eq: "!=", ast.NotEq: "==",
       ast.In: "not in", ast.NotIn: "in", ast.Is: "is not", ast.IsNot: "is"}
BIN = {ast.Add: "-", ast.Sub: "+", ast.Mult: "//", ast.FloorDiv: "*", ast.Div: "*", ast.Mod: "//"}


def seg(src_lines, node):
    if node.lineno == node.end_lineno:
        return src_lines[node.lineno - 1][node.col_offset:node.end_col_offset]
    return None


def mutants_of(path, src):
    """yield (func qualname, lineno, operator, (l0, c0, l1, c1), replacement text, description)"""
    tree = ast.parse(src)
    lines = src.split("\n")
    parents = {}
    for n in ast.walk(tree):
        for c in ast.iter_child_nodes(n):
            parents[c] = n

    def qual(n):
        names = []
        cur = n
        while cur in parents:
            cur = parents[cur]
            if isinstance(cur, (ast.FunctionDef, ast.AsyncFunctionDef, ast.ClassDef)):
                names.append(cur.name)
        return ".".join(reversed(names))

    for n in ast.walk(tree):
        q = qual(n)
        if not q:
            continue
        pos = None
        if hasattr(n, "lineno") and n.lineno == getattr(n, "end_lineno", None):
            pos = (n.lineno, n.col_offset, n.end_lineno, n.end_col_offset)
        if pos is None:
            continue
        text = seg(lines, n)
        if isinstance(n, ast.Compare) and len(n.ops) == 1 and type(n.ops[0]) in CMP:
            l, r = seg(lines, n.left), seg(lines, n.comparators[0])
            if l is not None and r is not None:
                yield q, n.lineno, "cmp", pos, f"{l} {CMP[type(n.ops[0])]} {r}", f"{text} -> {CMP[type(n.ops[0])]}"
        elif isinstance(n, ast.BinOp) and type(n.op) in BIN:
            l, r = seg(lines, n.left), seg(lines, n.right)
            if l is not None and r is not None and not isinstance(n.left, ast.Constant) or \
                    (l is not None and r is not None and not isinstance(getattr(n.left, "value", None), str)):
                if isinstance(n.op, ast.Mod) and isinstance(n.left, (ast.Constant, ast.JoinedStr)):
                    continue
                yield q, n.lineno, "bin", pos, f"{l} {BIN[type(n.op)]} {r}", f"{text} -> {BIN[type(n.op)]}"
        elif isinstance(n, ast.BoolOp) and len(n.values) == 2:
            l, r = seg(lines, n.values[0]), seg(lines, n.values[1])
            if l is not None and r is not None:
                op = "or" if isinstance(n.op, ast.And) else "and"
                yield q, n.lineno, "bool", pos, f"{l} {op} {r}", f"{text} -> {op}"
        elif isinstance(n, ast.UnaryOp) and isinstance(n.op, ast.Not):
            o = seg(lines, n.operand)
            if o is not None:
                yield q, n.lineno, "not", pos, f"({o})", f"{text} -> drop not"
        elif isinstance(n, ast.Constant) and isinstance(n.value, int) and not isinstance(n.value, bool) \
                and n.value in (0, 1, 2) and not isinstance(parents.get(n), (ast.Subscript, ast.Slice)):
            yield q, n.lineno, "const", pos, str(n.value + 1), f"{text} -> {n.value + 1}"
        elif isinstance(n, ast.Constant) and isinstance(n.value, bool) and \
                isinstance(parents.get(n), (ast.keyword, ast.Assign, ast.Return)):
            yield q, n.lineno, "bool-const", pos, str(not n.value), f"{text} -> {not n.value}"
        elif isinstance(n, (ast.Expr, ast.AugAssign)) and not (
                isinstance(n, ast.Expr) and isinstance(n.value, ast.Constant)):
            yield q, n.lineno, "del-stmt", pos, "pass", f"delete `{text[:60]}`"
        elif isinstance(n, ast.Assign) and isinstance(n.targets[0], (ast.Attribute, ast.Subscript)):
            yield q, n.lineno, "del-stmt", pos, "pass", f"delete `{text[:60]}`"
        elif isinstance(n, (ast.If, ast.While)):
            pass
        if isinstance(n, ast.If) or isinstance(n, ast.While):
            pass
    # negated tests of if statements (single-line tests only)
    for n in ast.walk(tree):
        if isinstance(n, (ast.If, ast.While, ast.IfExp)) and n.test.lineno == n.test.end_lineno:
            q = qual(n)
            if not q:
                continue
            t = n.test
            text = seg(lines, t)
            yield q, t.lineno, "neg-test", (t.lineno, t.col_offset, t.end_lineno, t.end_col_offset), \
                f"not ({text})", f"if {text[:60]} -> negated"
        if isinstance(n, ast.Continue) or isinstance(n, ast.Break):
            q = qual(n)
            if q:
                other = "break" if isinstance(n, ast.Continue) else "continue"
                yield q, n.lineno, "loop-exit", (n.lineno, n.col_offset, n.end_lineno, n.end_col_offset), other, \
                    f"{'continue' if other == 'break' else 'break'} -> {other}"


def apply(src, pos, rep):
    lines = src.split("\n")
    l0, c0, l1, c1 = pos
    assert l0 == l1
    ln = lines[l0 - 1]
    lines[l0 - 1] = ln[:c0] + rep + ln[c1:]
    return "\n".join(lines)


_SOURCES = None
_KNOWN = None


def _init(sources):
    global _SOURCES, _KNOWN
    _SOURCES = sources
    _KNOWN = report.load_known()


def run_mutant(args):
    path, q, line, op, pos, rep, desc, props = args
    src = dict(_SOURCES)
    try:
        src[path] = apply(src[path], pos, rep)
        compile(src[path], path, "exec")
    except (SyntaxError, AssertionError, ValueError):
        return None
    out = {"file": path, "func": q, "line": line, "op": op, "desc": desc, "fired": [], "errors": []}
    try:
        prog = Program(src, label="mutant")
    except Exception as e:  # noqa
        out["errors"].append(f"load: {e}")
        return out
    for pid in props:
        try:
            mod, results, ctx, new, matched, stale = check.run_property(pid, prog, "quick", _KNOWN)
            for v in new:
                out["fired"].append(f"{v.rule}")
        except AnalysisError as e:
            out["errors"].append(f"{pid}: {str(e)[:100]}")
        except Exception as e:  # noqa
            out["errors"].append(f"{pid}: raised {type(e).__name__}: {str(e)[:80]}")
    out["fired"] = sorted(set(out["fired"]))
    return out


def main():
    ap = argparse.ArgumentParser()
    ap.add_argument("--files")
    ap.add_argument("--props")
    ap.add_argument("--jobs", type=int, default=8)
    ap.add_argument("--out", default="/tmp/mutmap.jsonl")
    ap.add_argument("--limit", type=int, default=0)
    ap.add_argument("--only-func")
    a = ap.parse_args()
    anchors = {}
    claimed = {c["property_id"] for c in json.load(open("/verif/MANIFEST.json"))["checks"]}
    for l in open("/verif/properties.jsonl"):
        p = json.loads(l)
        if p["id"] not in claimed:
            continue
        for f in p["anchors"]["files"]:
            anchors.setdefault(f, []).append(p["id"])
    prog = Program.from_repo()
    files = a.files.split(",") if a.files else sorted(anchors)
    tasks = []
    for path in files:
        props = a.props.split(",") if a.props else anchors.get(path, [])
        if path not in prog.sources or not props:
            continue
        for q, line, op, pos, rep, desc in mutants_of(path, prog.sources[path]):
            if a.only_func and not any(x == q.split(".")[-1] or x == q for x in a.only_func.split(",")):
                continue
            tasks.append((path, q, line, op, pos, rep, desc, props))
    if a.limit:
        tasks = tasks[:: max(1, len(tasks) // a.limit)]
    print(f"{len(tasks)} mutants over {len(files)} files", flush=True)
    n = 0
    with open(a.out, "w") as fo, ProcessPoolExecutor(a.jobs, initializer=_init, initargs=(prog.sources,)) as ex:
        for res in ex.map(run_mutant, tasks, chunksize=4):
            if res is None:
                continue
            fo.write(json.dumps(res) + "\n")
            n += 1
            if n % 200 == 0:
                fo.flush()
                print(n, flush=True)
    summarise(a.out)


def summarise(path):
    per = {}
    for l in open(path):
        r = json.loads(l)
        k = (r["file"], r["func"])
        d = per.setdefault(k, [0, 0, 0])
        if r["fired"]:
            d[0] += 1
        elif r["errors"]:
            d[1] += 1
        else:
            d[2] += 1
    print(f"{'function':70s} fired  err  silent")
    for (f, q), (a_, b_, c_) in sorted(per.items()):
        print(f"{(f.split('/')[-1] + '::' + q)[:70]:70s} {a_:5d} {b_:4d} {c_:6d}")
    tot = [sum(v[i] for v in per.values()) for i in range(3)]
    print(f"TOTAL fired {tot[0]} fail-closed {tot[1]} silent {tot[2]}")


if __name__ == "__main__":
    if len(sys.argv) > 1 and sys.argv[1] == "--summarise":
        summarise(sys.argv[2])
    else:
        main()
