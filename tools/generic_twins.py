"""Runs every claimed property's rules on the generic whole-package twins and
reports differences in verdicts (used while hardening the rules)."""
import json, sys
sys.path.insert(0, '/verif')
from sa.engine.program import Program, read_sources, AnalysisError
from sa.engine import report
from sa.selftest import generic
from sa import check
props = [c['property_id'] for c in json.load(open('/verif/MANIFEST.json'))['checks']]
only = sys.argv[1:] or props
src = read_sources()
known = report.load_known()
for name, fn in generic.GENERIC.items():
    prog = Program(fn(src), label=name)
    for p in only:
        try:
            mod, results, ctx, new, matched, stale = check.run_property(p, prog, 'quick', known)
            if new:
                print(f"[{name.split(':')[1].strip()[:22]}] {p}: {len(new)} false alarms")
                for v in new[:6]:
                    print("      ", v.rule, v.construct[-70:], '|', v.reason[:110])
            else:
                print(f"[{name.split(':')[1].strip()[:22]}] {p}: ok ({sum(len(r.instances) for r in results)} instances)")
        except AnalysisError as e:
            print(f"[{name.split(':')[1].strip()[:22]}] {p}: ANALYSIS-ERROR {str(e)[:200]}")
