"""Writes /verif/seeded/<id>/meta.json for every confirmed seeded change.
The 'needs' and 'summary' texts were written by hand from the sub-agents' notes and
from reading each patch; 'confirmed' comes from tools/confirm_seed.sh logs."""
import glob
import json
import os
import re
import subprocess
import sys

INFO = {
 "C02_1": ("C02", "restore_ind divides the slice count by the index dimension instead of the recorded SliceInfo.size",
           "sequence: remove_ind(x, project=j) -> slice another index y -> restore_ind(x) -> contract (a projected index recorded size 1)"),
 "C02_2": ("C02", "compute_contracted_info treats every index shared by both operands as summed (`continue`) instead of adding the counts",
           "network with a hyper index (>=3 appearances, or 2 + output) and an accepted annealing move pairing two nodes that share it, then contract"),
 "C03_1": ("C03", "compute_leaf_legs rebuilds the legs of a preprocessed leaf with count 1 for every index",
           "unusual input: a tensor with a repeated (diagonal) index that also occurs on other tensors, in a tree of >=3 tensors"),
 "C03_2": ("C03", "restore_ind divides multiplicity by size_dict[ind] (same construct as C02_1, written independently)",
           "sequence: project an index, then restore/unslice it"),
 "C04_1": ("C04", "_remove_node keeps the root's cached legs when it clears the root's info",
           "sequence: slice or project an *output* index, then unslice it; compare with a rebuilt tree"),
 "C04_2": ("C04", "compute_contracted_info drops a shared index only if appearances[ix] == 2 (fast path), otherwise always keeps it",
           "hyper-index network + an accepted annealing move at the node that completes the index"),
 "C06_1": ("C06", "restore_ind divides the slice count by size_dict[ind] (via a local d)",
           "sequence: remove_ind(ix, project=v), remove_ind(other), restore_ind(ix)/unslice_all, then slice numbering / contract"),
 "C06_2": ("C06", "SliceInfo field order changed to (ind, size, inner, project): the order=True dataclass no longer sorts output indices first",
           "lazy chunk generation with >=1 inner and >=1 output sliced index where the inner label sorts before the output label"),
 "C07_1": ("C07", "ContractionCosts.remove uses _where.pop(ix, ()) and silently 'removes' indices that are in no contraction",
           "already sliced tree + a target the remaining allowed indices cannot reach (e.g. allow_outer='only' with a large target_slices)"),
 "C07_2": ("C07", "from_contraction_tree takes original_flops from tree.contraction_cost() (includes the tree's slice count)",
           "option combination: target_overhead on a tree that already has nslices > 1"),
 "C08_1": ("C08", "ReconfTrialFn replaces trial.update(tree.contract_stats()) by ensure_basic_quantities_are_computed(trial)",
           "option combination: reconf_opts together with slicing_opts / simulated_annealing_opts / slicing_reconf_opts (an earlier stage already wrote the keys)"),
 "C08_2": ("C08", "_get_and_report_next_future reports every finished future in one pass but returns only the last one",
           "schedule: >=2 pool workers finish between two polls and the better trial is not the last in submission order"),
 "C13_1": ("C13", "hash_contraction keys on tuple(size_dict.values()) instead of .items()",
           "caller passes explicit size_dicts whose key order differs from first appearance; two contractions with the same size sequence"),
 "C13_2": ("C13", "new memo table in _array_contract_expression_with_constants keyed by id() of the constant arrays",
           "sequence: build expression with constants, update a constant array in place, request the expression again with caching on"),
 "C14_1": ("C14", "ReusableHyperOptimizer._reconstruct_tree replays stored sliced indices only if slicing_opts was given",
           "slicing_reconf_opts only + a search that slices + a cache hit (repeat query or second optimizer on the same directory)"),
 "C14_2": ("C14", "hash_contraction_a sorts the list of terms as well (sortedtuple(map(sortedtuple, inputs)))",
           "query X, then a tensor-permutation of X with identical index names and sizes"),
 "C15_1": ("C15", "os.replace(tmp, fname) moved inside the `with open(tmp)` block (before the file is closed/flushed)",
           "crash point: writer dies between os.replace returning and the buffered pickle being flushed (2 consecutive crash points of 752)"),
 "C15_2": ("C15", "temp file created at the top of the cache directory + directory_split='auto' redefined as 'no regular file at top level'",
           "two cooperating edits; sharded cache with entries, writer dies inside the temp-file window, later optimizer with default 'auto'"),
 "C16_1": ("C16", "ReusableOptimizer keeps a single _last_opt slot instead of the dict keyed by thread id",
           "interleaving: two threads, one shared instance, both cache misses; thread B completes a search between A's cache write and A's `self.last_opt.tree`"),
 "C16_2": ("C16", "AutoOptimizer(cache=False) reuses the per-thread HyperOptimizer when inputs/output equal the previous query (ignores size_dict)",
           "cache=False, hard enough network, consecutive same-thread queries with identical inputs/output but growing sizes"),
 "C17_1": ("C17", "remove_ind appends an inner sliced index without re-sorting the sliced_inds table",
           "seeded slice picking >=2 inner indices, then unslice_rand/annealing, compared across interpreters with different PYTHONHASHSEED"),
 "C17_2": ("C17", "_slice_tree_drift calls tree.slice_(target_slices=2, max_repeats=4) without seed=rng",
           "target_size given and slice_mode='drift' (default of parallel_temper), global RNG perturbed between identical seeded calls"),
 "C18_1": ("C18", "optimize_random_greedy_track_flops builds the processor without track_flops, simplifies, then switches tracking on",
           "network with two tensors of identical index sets or a scalar term (simplify performs real contractions)"),
 "C18_2": ("C18", "compute_contracted_info tests ix_count + legsb.get(ix, 0) but stores the un-summed count",
           "hyper index shared by both operands of a step plus a further step using that intermediate"),
 "C19_1": ("C19", "Contractor accumulates the stripped scale as a running product and takes one log10 at the end",
           "many tensors at extreme scale (8 x 1e70, or 4 x 1e90 then 4 x 1e-90)"),
 "C19_2": ("C19", "add_maybe_exponent_stripped keeps the running total's exponent instead of rescaling both to the max",
           "sliced tree where a later slice is >308 decades larger than the first"),
 "C20_1": ("C20", "HyperGraph.compress groups edges with len(nodes) > 1 instead of excluding output edges",
           "an output index carried by >=2 tensors that are also joined by another index"),
 "C20_2": ("C20", "neighborhood_compress_cost charges a cost unless da < chi (i.e. also when da == chi)",
           "chi exactly equal to a bond size that arises"),
 "C02_3": ("C02", "set_state_from transfers `preprocessing` by reference instead of by copy",
           "an input needing single-term simplification + a non-inplace history (s = t.remove_ind(ix); then contract t)"),
 "C02_4": ("C02", "non-inplace restore_ind pops the index from self.sliced_inds before copying",
           "sliced/projected tree s, non-inplace s.restore_ind(ix) or s.unslice_rand(), then continued use of s"),
 "C04_3": ("C04", "set_state_from transfers (_track_*, total) pairs in one loop and assigns _sizes without .copy()",
           "copy() or any non-inplace op while size tracking is on, then mutate one tree, then query the size of the other"),
 "C04_4": ("C04", "restore_ind rescales the cached flops by si.size and passes it as cost= instead of recomputing",
           "option combination: project an index (SliceInfo.size == 1), then restore it"),
 "C08_3": ("C08", "_gen_results_parallel primes the pool with pre_dispatch trials regardless of `repeats`",
           "pool search with max_repeats < pre_dispatch = max(n_workers + 4, 1.2 n_workers)"),
 "C08_4": ("C08", "_maybe_report_result appends costs_flops/write/size only for trials that produced a tree",
           "at least one failing trial (exception / BadTrial) recorded before the winner"),
 "C13_3": ("C13", "_PATH_CACHE and _CONTRACT_EXPR_CACHE become two names of one dict",
           "array_contract_path(X) and an expression request for the same X with no option kwargs, in either order"),
 "C13_4": ("C13", "Contractor caches the backend inferred from the arrays of its first call",
           "same contraction first issued on autoray.lazy/dask arrays, then on numpy arrays (or reverse), no explicit backend"),
 "C14_3": ("C14", "hash_contraction_b pickles frozenset(size_dict.items()) instead of the sorted tuple",
           "hash_method='b' + directory=<path> + repeat query from another interpreter (different PYTHONHASHSEED)"),
 "C14_4": ("C14", "cache_only is enforced only when the entry is missing",
           "cache_only=True together with overwrite in {True, 'improved'} and the contraction already stored"),
 "C15_3": ("C15", "temp file via tempfile.NamedTemporaryFile (system temp dir) and shutil.move",
           "cache directory on a different filesystem than gettempdir() + crash inside the copy fallback"),
 "C15_4": ("C15", "fixed temp name `<entry>.tmp` opened with mode 'xb'",
           "two cooperating edits; a writer killed between the exclusive create and the rename blocks every later store"),
 "C16_3": ("C16", "in-flight de-duplication: a waiting thread returns the other thread's entry with searched=True",
           "interleaving: thread A (which searched X before) asks about Y while thread B is mid-search on the same Y"),
 "C16_4": ("C16", "ReusableOptimizer.search memoises the reconstructed tree per fingerprint",
           "3-step sequence: miss, hit (builds memo), hit with a different index order of the same contraction"),
 "C03_3": ("C03", "remove_ind resets a sliced leaf by popping only legs/inds (and its preprocessing) instead of clearing the entry: a cached leaf size survives",
           "sequence: peak_size() (or any get_size(leaf)) -> remove_ind/slice -> peak_size()"),
 "C03_4": ("C03", "get_contractor keys the per-tree contractor memo by getattr(order, '__qualname__', order)",
           "same tree contracted twice with two different order callables of the same qualified name (lambdas/closures from one factory)"),
 "C06_3": ("C06", "gather_slices brings chunks to the common exponent with mi / 10 ** (ei - emax)",
           "strip_exponent=True + >=1 sliced output index + chunks with different exponents"),
 "C06_4": ("C06", "gen_output_chunks decodes the chunk key from the chunk number o instead of the slice number o * stepsize",
           "with_key=True + >=1 sliced output index + >=1 inner sliced index of size > 1"),
 "C07_3": ("C07", "ContractionTree.slice builds SliceFinder(self, ...) instead of SliceFinder(tree, ...)",
           "reslice=True with inplace=False on an already sliced tree"),
 "C07_4": ("C07", "SliceFinder.search ends with self.best() instead of forwarding the per-call targets",
           "search() called with a target override tighter than the constructor's (re-using the finder's cache)"),
 "C17_3": ("C17", "SliceFinder.trial scores candidates = cost.size_dict.keys() - self.forbidden (a set of labels) with a key drawing from the rng",
           "allow_outer=False/'only' + output indices + temperature not tiny, compared across PYTHONHASHSEED values"),
 "C17_4": ("C17", "subtree_reconfigure_forest passes seed=None to saplings unless select == 'random'",
           "subtree_select containing 'max'/'min' together with subtree_search containing 'random', global RNG perturbed"),
 "C18_3": ("C18", "HyperGraph.contract drops indices shared by both operands unless still in self.edges (ignores the output)",
           "an output index carried by several tensors whose last two carriers are contracted"),
 "C18_4": ("C18", "ReconfTrialFn no longer runs trial.update(tree.contract_stats())",
           "reconf_opts combined with simulated_annealing_opts / slicing_opts / slicing_reconf_opts"),
 "C19_3": ("C19", "check_zero early exit returns (0.0, 0.0) instead of (0.0, -inf)",
           "strip_exponent + check_zero + sliced tree + an exactly-zero slice + remaining slices with exponent below about -308"),
 "C19_4": ("C19", "per-step scale measured with linalg.norm instead of max(abs(.))",
           "a tree contracting two raw inputs whose decimal scales sum beyond +154 or below -162 (each within 1e-100..1e100)"),
 "C20_3": ("C20", "HyperGraph.contract treats the bond between the contracted pair as summed even when a third tensor still carries it",
           "a hyper-edge on >=3 tensors and a tree contracting two of its carriers while a third is still separate"),
 "C20_4": ("C20", "HyperGraph.__init__ keeps the caller's size_dict when it already is a dict (compress() then writes capped sizes into it)",
           ">=2 estimates sharing one size_dict on a tree where some double bond forms (capped query first)"),
}


def main():
    logs = ""
    for p in sys.argv[1:]:
        logs += open(p).read()
    matrix = open("/verif/seeded/MATRIX.md").read() if os.path.exists("/verif/seeded/MATRIX.md") else ""
    for d in sorted(glob.glob("/verif/seeded/*/")):
        sid = os.path.basename(d.rstrip("/"))
        if sid not in INFO:
            continue
        prop, summary, needs = INFO[sid]
        m = re.search(rf"RESULT {sid} demo_clean=(\d+) demo_patched=(\d+) suite_missing=(\d+)", logs)
        ran = {
            "scratch_worktree": "git -C /repo worktree add --detach /tmp/wt/confirm_<id> HEAD (removed afterwards)",
            "demo_on_clean_tree_exit": int(m.group(1)) if m else None,
            "demo_with_patch_exit": int(m.group(2)) if m else None,
            "baseline_stable_tests_missing_with_patch": int(m.group(3)) if m else None,
            "suite_cmd": "python -m pytest -q -p no:cacheprovider --timeout=900 -n 6 (compared with BASELINE.stable_pass)",
        }
        row = [l for l in matrix.splitlines() if l.startswith(f"| {sid} ")]
        det = row[0].split("|")[3:5] if row else ["", ""]
        meta = {
            "id": sid,
            "breaks_property": prop,
            "change": summary,
            "needs_to_manifest": needs,
            "author": "fresh sub-agent given only the property text and a scratch worktree",
            "confirmed_by_me": ran,
            "detected_by_own_check": det[0].strip().strip("*") if row else "unknown",
            "rules_firing": det[1].strip() if row else "unknown",
            "base_commit_of_patch": "3d0eb8e (round 1) / e0d45e8 (round 2); all apply to the current HEAD",
        }
        with open(os.path.join(d, "meta.json"), "w") as f:
            json.dump(meta, f, indent=1)
        print("meta", sid)


if __name__ == "__main__":
    main()
